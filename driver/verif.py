#!/usr/bin/env python3
"""Driver: build -> MC/GEN (TLC) -> harness (real code) -> TV (TLC judges) -> verdict + evidence.

The driver never judges a property: it moves files between TLC and the harness, runs them,
collects the verdict lines TLC prints and accounts for known findings.
Exit codes: 0 property held on everything explored; 1 violation (VIOLATION line + replay file);
2 tool error / timeout / environment-model mismatch.
"""
import json, os, subprocess, sys, time, re, hashlib, shutil, random

ROOT = os.path.dirname(os.path.dirname(os.path.abspath(__file__)))
SPEC = os.environ.get("VERIF_DEV_SPEC", os.path.join(ROOT, "spec"))       # development aid only, like the other VERIF_DEV_* overrides
# development aid only (never used by the registered commands): a scratch copy of the harness that points at a scratch clone of
# /repo, so that checks can be developed while a seeded change is applied to /repo itself
HARNESS = os.environ.get("VERIF_DEV_HARNESS", os.path.join(ROOT, "harness"))
WORK = os.environ.get("VERIF_DEV_WORK", os.path.join(ROOT, "work"))
VH = os.path.join(HARNESS, "target", "release", "vh")
REPO = os.environ.get("VERIF_DEV_REPO", "/repo")


class ToolError(Exception):
    pass


def log(*a):
    print(*a, file=sys.stderr, flush=True)


# ------------------------------------------------------------------------------------------
# tools

def harness_build():
    env = dict(os.environ, CARGO_NET_OFFLINE="true")
    r = subprocess.run(["cargo", "build", "--release", "--offline"], cwd=HARNESS,
                       env=env, stdout=subprocess.PIPE, stderr=subprocess.STDOUT, text=True)
    if r.returncode != 0:
        log(r.stdout[-4000:])
        raise ToolError("harness build failed (does /repo still compile with the hooks enabled?)")


def harness_run(mode, cases, obs, jobs=8, stall=60):
    r = subprocess.run([VH, "run", mode, cases, obs, str(jobs), str(stall)],
                       stdout=subprocess.PIPE, stderr=subprocess.STDOUT, text=True)
    if r.returncode != 0:
        log(r.stdout[-2000:])
        raise ToolError(f"harness run {mode} failed")


def tlc_cmd(module, cfg, metadir, workers, extra=()):
    return ["java", "-XX:+UseParallelGC", "-cp",
            "/opt/veriftools/tla/tla2tools.jar:/opt/veriftools/tla/CommunityModules-deps.jar",
            "tlc2.TLC", "-workers", str(workers), "-metadir", metadir, "-cleanup",
            "-noGenerateSpecTE", *extra, "-config", cfg, module]


def tlc_env(env=None, xmx="4g", xss="1g"):
    e = dict(os.environ)
    # TLC unpacks its standard modules into java.io.tmpdir on every start: keep that inside the work directory
    jtmp = os.path.join(WORK, "jtmp")
    os.makedirs(jtmp, exist_ok=True)
    e["JAVA_TOOL_OPTIONS"] = f"-DTLA-Library={SPEC} -Xss{xss} -Xmx{xmx} -Djava.io.tmpdir={jtmp}"
    if env:
        e.update(env)
    return e


def tlc_start(module, cfg, outpath, metadir, workers=4, env=None, xmx="4g", extra=()):
    f = open(outpath, "w")
    p = subprocess.Popen(tlc_cmd(module, cfg, metadir, workers, extra), stdout=f, stderr=subprocess.STDOUT,
                         env=tlc_env(env, xmx), cwd=os.path.dirname(outpath))
    return p, f


def tlc_wait(procs, timeout):
    t0 = time.time()
    for p, f in procs:
        left = max(1, timeout - (time.time() - t0))
        try:
            p.wait(timeout=left)
        except subprocess.TimeoutExpired:
            for q, _ in procs:
                q.kill()
            raise ToolError("TLC timed out")
        finally:
            f.close()


def tlc_run(module, cfg, outpath, metadir, workers=8, env=None, timeout=1800, xmx="8g", extra=()):
    p, f = tlc_start(module, cfg, outpath, metadir, workers, env, xmx, extra)
    tlc_wait([(p, f)], timeout)
    shutil.rmtree(metadir, ignore_errors=True)
    return open(outpath).read()


def tlc_summary(text):
    """states generated / distinct from TLC's own summary; raises on TLC errors."""
    m = re.search(r"(\d+) states generated, (\d+) distinct states found", text)
    if "Error:" in text or "error has been found" in text and "No error has been found" not in text:
        idx = text.find("Error:")
        raise ToolError("TLC reported an error:\n" + text[max(0, idx - 200): idx + 3000])
    if not m:
        raise ToolError("TLC produced no summary:\n" + text[-3000:])
    return {"generated": int(m.group(1)), "distinct": int(m.group(2))}


def coverage_actions(text):
    """per-action counts from -coverage output: {action: (distinct, total)}"""
    acts = {}
    for m in re.finditer(r"<(\w+) line \d+, col \d+ to line \d+, col \d+ of module (\w+)>: (\d+):(\d+)", text):
        acts[m.group(1)] = (int(m.group(3)), int(m.group(4)))
    return acts


def tlc_lines(text, prefix):
    """Lines TLC printed with PrintT(prefix \\o ToJson(..)): each is a TLA+ string literal."""
    out = []
    # TLC's workers print in no fixed order: sorted, so that seeded sampling downstream is reproducible
    for line in sorted(l for l in text.splitlines() if l.startswith('"' + prefix)):
        if True:
            try:
                s = json.loads(line)
            except json.JSONDecodeError:
                raise ToolError("broken TLC output line: " + line[:200])
            out.append(json.loads(s[len(prefix):]))
    return out


def write_ndjson(path, recs):
    with open(path, "w") as f:
        for r in recs:
            f.write(json.dumps(r, separators=(",", ":")) + "\n")


def read_ndjson(path):
    return [json.loads(l) for l in open(path) if l.strip()]


def tv_parallel(module, cfg, obs_path, workdir, nproc=8, workers=2, timeout=1800, env_name="OBS", extra_env=None, xmx="3g"):
    """Split the observation file into chunks and let one TLC process judge each chunk."""
    lines = [l for l in open(obs_path) if l.strip()]
    nproc = max(1, min(nproc, len(lines)))
    procs, outs = [], []
    for k in range(nproc):
        chunk = os.path.join(workdir, f"chunk{k}.ndjson")
        with open(chunk, "w") as f:
            f.writelines(lines[k::nproc])
        out = os.path.join(workdir, f"tv{k}.out")
        env = {env_name: chunk}
        if extra_env:
            env.update(extra_env)
        procs.append(tlc_start(module, cfg, out, os.path.join(workdir, f"md{k}"), workers, env, xmx))
        outs.append(out)
    tlc_wait(procs, timeout)
    verdicts, gen, dist = [], 0, 0
    for k, out in enumerate(outs):
        text = open(out).read()
        s = tlc_summary(text)
        gen += s["generated"]
        dist += s["distinct"]
        verdicts.extend(tlc_lines(text, "V "))
        shutil.rmtree(os.path.join(workdir, f"md{k}"), ignore_errors=True)
    return verdicts, {"generated": gen, "distinct": dist}


# ------------------------------------------------------------------------------------------
# known findings

def load_findings():
    p = os.path.join(ROOT, "known_findings.jsonl")
    out = []
    if os.path.exists(p):
        for l in open(p):
            l = l.strip()
            if l.startswith("{"):      # "fixed:" lines and comments suppress nothing
                out.append(json.loads(l))
    return out


# ------------------------------------------------------------------------------------------
# evidence / verdict plumbing

class Result:
    def __init__(self, prop, tier, seed):
        self.prop, self.tier, self.seed = prop, tier, seed
        self.t0 = time.time()
        self.states = 0
        self.transitions = 0
        self.traces = 0
        self.evaluations = 0
        self.nontrivial = 0
        self.samples = []
        self.violations = []      # (what, replay record)
        self.known = {}           # finding site -> count
        self.drift = 0
        self.extra = {}
        self.rule = ""
        self.assumptions = []
        self.exhaustive = False

    def add_mc(self, summ):
        self.states += summ["distinct"]
        self.transitions += summ["generated"]

    def finish(self):
        wd = os.path.join(WORK, self.prop.lower(), "violations")
        shutil.rmtree(wd, ignore_errors=True)
        os.makedirs(wd, exist_ok=True)
        for site, (n, what) in sorted(self.known.items()):
            print(f"KNOWN-FINDING: property={self.prop} site={site} cases={n} {what}")
        for i, (what, rec) in enumerate(self.violations[:20]):
            path = os.path.join(wd, f"{i}.json")
            with open(path, "w") as f:
                json.dump({"property": self.prop, "what": what, "case": rec}, f)
            print(f"VIOLATION property={self.prop} replay={path}")
            log("   ", what)
        if len(self.violations) > 20:
            log(f"... {len(self.violations) - 20} more violations not written")
        ev = {
            "property_id": self.prop, "tier": self.tier, "seed": self.seed, "level": "model_checking",
            "coverage": {
                "states": max(1, self.states), "transitions": max(1, self.transitions),
                "traces_validated_against_impl": self.traces,
                "evaluations": self.evaluations, "distinct_nontrivial": self.nontrivial,
                "rule": self.rule, "samples": self.samples[:5] or ["(none)"],
                "exhaustive": self.exhaustive, "drift": self.drift,
                "known_findings": {k: v[0] for k, v in self.known.items()},
                **self.extra,
            },
            "assumptions": self.assumptions,
            "wall_s": round(time.time() - self.t0, 1),
            "violations": len(self.violations),
        }
        os.makedirs(os.path.join(ROOT, "evidence"), exist_ok=True)
        with open(os.path.join(ROOT, "evidence", f"{self.prop}.json"), "w") as f:
            json.dump(ev, f, indent=1)
        return 1 if self.violations else 0


def workdir(prop):
    d = os.path.join(WORK, prop.lower())
    shutil.rmtree(d, ignore_errors=True)
    os.makedirs(d)
    shutil.rmtree(os.path.join(WORK, "jtmp"), ignore_errors=True)     # scratch of earlier TLC runs
    return d


def normalise_crashes(obs_path, cases, defaults):
    """Supervisor crash records carry only {i, case, crash}: give them the mode's fields so that
    every JSON position keeps one sort, and let TLC judge them (a crash is data)."""
    recs = read_ndjson(obs_path)
    changed = False
    for r in recs:
        if r.get("crash"):
            d = defaults(cases[r["i"]], r["crash"])
            d.update({"i": r["i"], "case": r["case"], "crash": r["crash"]})
            r.clear()
            r.update(d)
            changed = True
    if changed:
        write_ndjson(obs_path, recs)
    return recs


# ------------------------------------------------------------------------------------------
# E0: the environment model ScaleInfo.tla against the real scale-info derive

def _e0_strip(reg):
    out = []
    for e in reg:
        e = json.loads(json.dumps(e))
        e["docs"] = []
        d = e["def"]
        fls = []
        if d["k"] == "comp":
            fls = [d["fields"]]
        if d["k"] == "var":
            for v in d["variants"]:
                v["docs"] = []
                fls.append(v["fields"])
        for fl in fls:
            for f in fl:
                f["docs"] = []
                tn = f["tn"].replace(" ", "")
                # the corpus spells some types with a path or lifetime; the spelling is source text, not behaviour
                odd = ("'" in tn or "core::" in tn or "bitvec::" in tn or "super::" in tn or "deeper::" in tn
                       or tn in ("Duration", "NonZeroU8", "NonZeroI32", "NonZeroU128") or tn.startswith("BitVec")
                       or tn.startswith("Range"))
                f["tn"] = "*" if odd else tn
        out.append(e)
    return out


def check_e0(wd):
    """Register(program) of the mirrored corpus must equal what the real derive produced."""
    corpus_path = os.path.join(wd, "corpus.ndjson")
    subprocess.run([VH, "corpus", corpus_path], check=True)
    real = {e["name"]: e["reg"] for e in read_ndjson(corpus_path)}
    out = tlc_run(os.path.join(SPEC, "mc", "E0_Corpus.tla"), os.path.join(SPEC, "mc", "E0_Corpus.cfg"),
                  os.path.join(wd, "e0.out"), os.path.join(wd, "mde0"), workers=1, timeout=300)
    tlc_summary(out)
    model = {r["name"]: r["reg"] for r in tlc_lines(out, "E0 ")}
    if len(model) < 25:
        raise ToolError("E0: too few mirrored programs")
    for n, m in model.items():
        if n not in real:
            raise ToolError(f"E0: corpus has no entry {n}")
        a, b = json.dumps(_e0_strip(m), sort_keys=True), json.dumps(_e0_strip(real[n]), sort_keys=True)
        # spelling differences of a type name are masked on both sides
        ta, tb = re.split(r'("tn": "[^"]*")', a), re.split(r'("tn": "[^"]*")', b)
        if len(ta) == len(tb):
            for i in range(1, len(ta), 2):
                if ta[i] == '"tn": "*"' or tb[i] == '"tn": "*"':
                    ta[i] = tb[i] = '"tn": "*"'
            a, b = "".join(ta), "".join(tb)
        if a != b:
            raise ToolError(f"E0: environment model ScaleInfo.tla disagrees with the real scale-info derive on {n}")
    return len(model), read_ndjson(corpus_path)


# ------------------------------------------------------------------------------------------
# the generator family pipeline shared by C01, C02, C03, C04, C10 (and reused by others)

def tree_hash():
    """hash of everything a cached observation depends on: /repo sources, specs, harness, driver"""
    h = hashlib.sha256()
    for base, exts in ((REPO, (".rs", ".toml")), (SPEC, (".tla", ".cfg")), (os.path.join(HARNESS, "src"), (".rs",)),
                       (os.path.join(ROOT, "driver"), (".py",))):
        for dp, dn, fn in sorted(os.walk(base)):
            if "/target" in dp or "/.git" in dp:
                continue
            for f in sorted(fn):
                if f.endswith(exts):
                    h.update(f.encode())
                    h.update(open(os.path.join(dp, f), "rb").read())
    return h.hexdigest()[:16]


GEN_FAMILIES = {
    # family: (cfg, quick sample size, thorough sample size)   (None = all)
    "G1a_1": ("MC_Gen_G1a_1.cfg", 1200, None),
    "G1a_2": ("MC_Gen_G1a_2.cfg", 500, None),
    "G1b_s": ("MC_Gen_G1b_s.cfg", 600, None),
    "G1b_e": ("MC_Gen_G1b_e.cfg", 600, None),
    "G1c": ("MC_Gen_G1c.cfg", None, None),
    "G1d": ("MC_Gen_G1d.cfg", 500, None),
    "G1e": ("MC_Gen_G1e.cfg", 300, None),
    "G1f": ("MC_Gen_G1f.cfg", None, None),
    "G1g": ("MC_Gen_G1g.cfg", None, None),
    "G2p_2": ("MC_Gen_G2p_2.cfg", None, None),      # all pairs of same-path members (as for G2s)
    "G2p_3s": ("MC_Gen_G2p_3s.cfg", 400, 0),
    "G2p_3": ("MC_Gen_G2p_3.cfg", 0, 8000),
    "G2s": ("MC_Gen_G2s.cfg", None, None),      # all shape pairs: each pair is the only witness of one comparison arm
    "G7": ("MC_Gen_G7.cfg", None, None),
    "G8": ("MC_Gen_G8.cfg", 220, None),
    "G8b": ("MC_Gen_G8b.cfg", None, None),
    "H1": ("MC_Gen_H1.cfg", None, None),
    "G2d": ("MC_Gen_G2d.cfg", None, None),
}


def gen_pipeline(tier, seed):
    """MC/GEN over the program families -> harness -> TV_Gen + TV_Dedup. Cached per tree/tier/seed."""
    key = f"gen-{tree_hash()}-{tier}-{seed}"
    cdir = os.path.join(WORK, "cache")
    os.makedirs(cdir, exist_ok=True)
    cpath = os.path.join(cdir, key + ".json")
    if os.path.exists(cpath):
        log(f"[gen] using cached observations {key}")
        return json.load(open(cpath))
    wd = workdir("gen")
    t0 = time.time()
    n_e0, corpus = check_e0(wd)
    rnd = random.Random(seed)
    cases, mc = [], {"generated": 0, "distinct": 0}
    fam_counts, design = {}, {"c01_false": 0, "c02_false": 0, "c03_false": 0, "teq_unsound": 0}
    procs = []
    fams = [f for f, (cfg, q, t) in GEN_FAMILIES.items() if (q if tier == "quick" else t) != 0 and os.path.exists(os.path.join(SPEC, "mc", cfg))]
    # MC_Gen runs: all families at once (quick) / four at a time (thorough), a few workers each
    step = len(fams) if tier == "quick" else 4
    for i in range(0, len(fams), step):
        batch = fams[i:i + step]
        ps = [(f, tlc_start(os.path.join(SPEC, "mc", "MC_Gen.tla"), os.path.join(SPEC, "mc", GEN_FAMILIES[f][0]),
                            os.path.join(wd, f"mc_{f}.out"), os.path.join(wd, f"md_{f}"), workers=(5 if f.startswith("G1b") else 2) if tier == "quick" else 4, xmx="6g")) for f in batch]
        tlc_wait([p for _, p in ps], 900 if tier == "quick" else 3000)
    log(f"[gen] MC done after {time.time() - t0:.0f}s")
    acts = {}
    for f in fams:
        text = open(os.path.join(wd, f"mc_{f}.out")).read()
        s = tlc_summary(text)
        mc["generated"] += s["generated"]
        mc["distinct"] += s["distinct"]
        fc = tlc_lines(text, "CASE ")
        fam_counts[f] = len(fc)
        for c in fc:
            design["c01_false"] += (not c["model"]["c01"]) and c["cf"]
            design["c02_false"] += not c["model"]["c02"]
            design["c03_false"] += not c["model"]["c03"]
            design["c05_false"] = design.get("c05_false", 0) + (not c["model"]["c05"])
            design["c17_false"] = design.get("c17_false", 0) + (not c["model"]["c17"])
            design["teq_unsound"] += not c["model"]["teq_sound"]
        lim = GEN_FAMILIES[f][1] if tier == "quick" else GEN_FAMILIES[f][2]
        if lim is not None and len(fc) > lim:
            rnd.shuffle(fc)
            fc = fc[:lim]
        for c in fc:
            c["fam"] = f
        cases += fc
        shutil.rmtree(os.path.join(wd, f"md_{f}"), ignore_errors=True)
    # the compiled corpus (real scale-info output) as extra cases; cf unknown -> judged for C02/C03/C10 only
    # ... under the plain settings (std, codec attributes on, no rules); TLC prints cases in no fixed order, so pick by content
    base = None
    for c in sorted((c for c in cases if c["fam"] == "G1c"), key=lambda c: json.dumps(c["settings"], sort_keys=True)):
        st = c["settings"]
        if st["codec"] and st["alloc_std"] and st["docs"] and not st["subs"] and not st["derive_calls"] and st["has_compact"] and st["has_bits"]:
            base = st
            break
    if base is None:
        raise ToolError("no G1c case with the plain settings")
    for e in corpus:
        if e["name"] == "ALL":
            continue
        cases.append({"fam": "corpus", "cf": False, "tog": False, "reg": e["reg"], "settings": base, "roots": [e["root"]],
                      "model": {"res": "", "c01": True, "c02": True, "c03": True, "teq_sound": True}, "name": e["name"],
                      "prog": {"defs": [], "cfgs": []}, "sroots": [], "perms": [], "retain": [0]})
    # closed sub-registries of real chain metadata (scale-info's retain around seeded id choices), family G6
    meta = os.path.join(REPO, "artifacts", "polkadot_metadata.scale")
    if os.path.exists(meta):
        subprocess.run([VH, "polkadot", meta, os.path.join(wd, "polkadot.ndjson"), str(seed), str(60 if tier == "quick" else 1200), "30"], check=True)
        for e in read_ndjson(os.path.join(wd, "polkadot.ndjson")):
            cases.append({"fam": "G6", "cf": False, "tog": False, "reg": e["reg"], "settings": base, "roots": [0],
                          "model": {"res": "", "c01": True, "c02": True, "c03": True, "teq_sound": True}, "name": e["name"],
                          "prog": {"defs": [], "cfgs": []}, "sroots": [], "perms": [], "retain": [0]})
        fam_counts["G6"] = sum(1 for c in cases if c["fam"] == "G6")
    recs = []
    for i, c in enumerate(cases):
        runs = [{"reg": c["reg"], "settings": c["settings"], "dedup": True, "composites": True, "teq": [], "repeat": 0, "retain": c["retain"]}]
        if c["cf"] and c["perms"] and (not c["fam"].startswith("G1a") or i % 6 == 0):
            # C17: the permuted registries chosen by TLC are generated and de-duplicated as further runs of the case
            for pm in c["perms"]:
                runs.append({"reg": pm["reg"], "settings": c["settings"], "dedup": True, "composites": False, "teq": [], "repeat": 0})
        recs.append({"case": i, "fam": c["fam"], "cf": c["cf"], "tog": c["tog"], "model": c["model"], "prog": c["prog"], "sroots": c["sroots"],
                     "perms": [pm["pi"] for pm in c["perms"]], "runs": runs})
    write_ndjson(os.path.join(wd, "cases.ndjson"), recs)
    # harness + judgement in batches (the observations of a batch are a few hundred MB; thorough runs have tens of thousands of cases)
    import threading
    BATCH = 5000
    v1, v2 = [], []
    s1 = {"generated": 0, "distinct": 0}
    s2 = {"generated": 0, "distinct": 0}
    for b0 in range(0, len(recs), BATCH):
        bw = os.path.join(wd, f"batch{b0 // BATCH}")
        os.makedirs(os.path.join(bw, "dedup"), exist_ok=True)
        write_ndjson(os.path.join(bw, "cases.ndjson"), recs[b0:b0 + BATCH])
        harness_run("gen", os.path.join(bw, "cases.ndjson"), os.path.join(bw, "obs.ndjson"), jobs=12)
        # crash / setup records are short lines: scan without materialising the observations
        with open(os.path.join(bw, "obs.ndjson")) as f:
            for line in f:
                if len(line) < 400 or line.count('"setup":"') != line.count('"setup":"ok"') or '"crash":""' not in line:
                    o = json.loads(line)
                    if o.get("crash"):
                        raise ToolError(f"harness worker crashed/timed out on gen case {o['case']} ({o['crash']})")
                    if any(r.get("setup") != "ok" for r in o["runs"]):
                        raise ToolError(f"harness could not set up case {o['case']}: {[r.get('setup') for r in o['runs']]}")
        log(f"[gen] batch {b0 // BATCH}: harness done after {time.time() - t0:.0f}s")
        box = {}

        def run_tv(name, module, d):
            try:
                box[name] = tv_parallel(os.path.join(SPEC, "tv", module), os.path.join(SPEC, "tv", module.replace(".tla", ".cfg")),
                                        os.path.join(bw, "obs.ndjson"), d, nproc=8, workers=1)
            except Exception as e:      # re-raised below
                box[name] = e
        th = [threading.Thread(target=run_tv, args=("gen", "TV_Gen.tla", bw)), threading.Thread(target=run_tv, args=("dedup", "TV_Dedup.tla", os.path.join(bw, "dedup")))]
        for t in th:
            t.start()
        for t in th:
            t.join()
        for k in ("gen", "dedup"):
            if isinstance(box[k], Exception):
                raise box[k]
        v1 += box["gen"][0]
        v2 += box["dedup"][0]
        for acc, got in ((s1, box["gen"][1]), (s2, box["dedup"][1])):
            acc["generated"] += got["generated"]
            acc["distinct"] += got["distinct"]
        if len(recs) > BATCH:
            shutil.rmtree(bw, ignore_errors=True)      # keep disk use bounded in thorough runs
        log(f"[gen] batch {b0 // BATCH}: TV done after {time.time() - t0:.0f}s")
    if len(v1) != len(recs) or len(v2) != len(recs):
        raise ToolError(f"TV judged {len(v1)}/{len(v2)} of {len(recs)} cases")
    by1 = {v["case"]: v for v in v1}
    by2 = {v["case"]: v for v in v2}
    verdicts = []
    for r in recs:
        a, b = by1[r["case"]], by2[r["case"]]
        verdicts.append({"case": r["case"], "fam": r["fam"], "cf": r["cf"],
                         "failed": sorted(set(a["failed"]) | set(b["failed"])),
                         "known": [list(k) for k in a["known"]] + [list(k) for k in b["known"]],
                         "drift": a["drift"] or b["drift"], "gen": a["gen"], "dedup": b["dedup"], "gen2": b["gen2"],
                         "renamed": b["renamed"], "family": a["family"], "outs": a["outs"], "tog": r["tog"], "c05": a["c05"],
                         "ncomp": a["ncomp"], "nruns": len(r["runs"]), "nsubs": a["nsubs"], "ncalls": a["ncalls"], "cas": a["cas"]})
    # per-action counts: the visit events of the real code that were stepped through the Visit action (-coverage is
    # unusable on this specification: TLC's cost accounting on the recursive operators exhausts the heap)
    for v in verdicts:
        for o in v["outs"]:
            acts["Visit:" + o] = acts.get("Visit:" + o, 0) + 1
    for o in ("substituted", "prelude", "builtin", "insert", "keep", "duplicate"):
        acts.setdefault("Visit:" + o, 0)
    out = {"verdicts": verdicts, "mc": mc, "tv": {"generated": s1["generated"] + s2["generated"], "distinct": s1["distinct"] + s2["distinct"]},
           "fam_counts": fam_counts, "design": design, "mc_actions": acts, "e0": n_e0, "wall": time.time() - t0,
           "cases_path": os.path.join(wd, "cases.ndjson")}
    # keep the cases next to the cache for replay files
    shutil.copy(os.path.join(wd, "cases.ndjson"), os.path.join(cdir, key + ".cases.ndjson"))
    out["cases_path"] = os.path.join(cdir, key + ".cases.ndjson")
    json.dump(out, open(cpath, "w"))
    return out


T3_SETTINGS = {"root": "types", "alloc_std": True, "alloc": {"k": "path", "lead": True, "segs": ["std"], "args": []}, "docs": True, "codec": True,
               "has_compact": True, "compact": {"k": "path", "lead": True, "segs": ["parity_scale_codec", "Compact"], "args": []},
               "has_bits": True, "bits": {"k": "path", "lead": False, "segs": ["crate", "DecodedBits"], "args": []},
               "has_compact_as": False, "compact_as": {"k": "path", "lead": True, "segs": ["parity_scale_codec", "CompactAs"], "args": []},
               "derive_calls": [{"op": "all_d", "path": {"k": "path", "lead": False, "segs": ["x"], "args": []},
                                 "items": ["::parity_scale_codec::Encode", "::parity_scale_codec::Decode"], "recursive": False}],
               "subs": []}


def t3_compilable(reg):
    """tool domain of the compile tier: types whose std / codec trait impls do not exist are left out
    (char has no codec impl; BTreeMap/BTreeSet/BinaryHeap need Ord keys - only primitive keys are kept; 256-bit integers)"""
    for e in reg:
        d = e["def"]
        if d["k"] == "prim" and d["p"] in ("char", "u256", "i256"):
            return False
        # Compact<T> needs T: HasCompact - only unsigned primitives are kept (wrapper structs would need a CompactAs derive)
        if d["k"] == "compact" and not (reg[d["of"]]["def"]["k"] == "prim" and reg[d["of"]]["def"]["p"] in ("u8", "u16", "u32", "u64", "u128")):
            return False
        # the codec's Duration rejects nanoseconds >= 10^9: not every encoding of its (u64, u32) registry shape is a Duration
        if e["path"] == ["Duration"]:
            return False
        if e["path"] in (["BTreeMap"], ["BTreeSet"], ["BinaryHeap"]):
            k = e["params"][0]["ty"]
            if k < 0 or reg[k]["def"]["k"] != "prim" or reg[k]["def"]["p"] == "str" and False:
                return False
    return True


def t3_pipeline(tier, seed):
    """compile-and-round-trip tier: emitted modules are compiled by rustc with parity-scale-codec derives and fed valid encodings"""
    g = gen_pipeline(tier, seed)
    key = f"t3-{tree_hash()}-{tier}-{seed}"
    cpath = os.path.join(WORK, "cache", key + ".json")
    if os.path.exists(cpath):
        return json.load(open(cpath))
    wd = workdir("t3")
    rnd = random.Random(seed)
    # the byte-level consequence is judged on the cases that are structurally faithful (structural failures are judged - and
    # attributed to known findings - by TV_Gen)
    ok_cases = {v["case"] for v in g["verdicts"] if v["gen"] == "ok" and v["cf"] and v["fam"] not in ("G7", "G8", "G8b", "G6")
                and not any(x.startswith(("C01.", "C02.", "C03.")) for x in v["failed"])}
    cases = [c for c in read_ndjson(g["cases_path"]) if c["case"] in ok_cases and t3_compilable(c["runs"][0]["reg"])]
    rnd.shuffle(cases)
    cases = cases[: 48 if tier == "quick" else 1500]
    recs = []
    for i, c in enumerate(cases):
        recs.append({"case": i, "fam": c["fam"], "orig": c["case"], "runs": [{"reg": c["runs"][0]["reg"], "settings": T3_SETTINGS}]})
    write_ndjson(os.path.join(wd, "cases.ndjson"), recs)
    crate = os.path.join(wd, "crate")
    shutil.copytree(os.path.join(HARNESS, "t3_template"), crate, ignore=shutil.ignore_patterns("target"))
    r = subprocess.run([VH, "emit", os.path.join(wd, "cases.ndjson"), os.path.join(crate, "src", "cases.rs"), os.path.join(wd, "manifest.ndjson"), "2"],
                       stdout=subprocess.PIPE, stderr=subprocess.STDOUT, text=True)
    if r.returncode != 0:
        raise ToolError("vh emit failed: " + r.stdout[-1000:])
    manifest = {m["case"]: m for m in read_ndjson(os.path.join(wd, "manifest.ndjson"))}
    src_path = os.path.join(crate, "src", "cases.rs")
    all_lines = open(src_path).read().split("\n")
    chunks = {cid: all_lines[mf["first_line"] - 1: mf["last_line"]] for cid, mf in manifest.items() if mf.get("emitted")}
    failed_cases = {}

    def build(selected):
        """write the selected case modules, compile; returns (ok, {case: codes} attributed by line, raw output)"""
        lines, ranges = [], {}
        for cid in selected:
            ranges[cid] = (len(lines) + 1, len(lines) + len(chunks[cid]))
            lines += chunks[cid]
        lines.append("pub fn run_all() {")
        lines += [f"    case_{cid}::run();" for cid in selected]
        lines.append("}")
        open(src_path, "w").write("\n".join(lines) + "\n")
        b = subprocess.run(["cargo", "build", "--release", "--offline", "--message-format=short"], cwd=crate, stdout=subprocess.PIPE,
                           stderr=subprocess.STDOUT, text=True, env=dict(os.environ, CARGO_NET_OFFLINE="true"))
        if b.returncode == 0:
            return True, {}, b.stdout
        bad = {}
        for m in re.finditer(r"src/cases\.rs:(\d+):\d+: error(?:\[(E\d+)\])?", b.stdout):
            ln, code = int(m.group(1)), m.group(2) or "error"
            for cid, (a, z) in ranges.items():
                if a <= ln <= z:
                    bad.setdefault(cid, set()).add(code)
        return False, bad, b.stdout

    def settle(selected, depth=0):
        """returns the sub-list of `selected` that compiles together; failing modules go to failed_cases"""
        if not selected:
            return []
        ok, bad, out = build(selected)
        if ok:
            return selected
        if bad:
            for cid, codes in bad.items():
                failed_cases[cid] = sorted(codes)
            return settle([c for c in selected if c not in bad], depth + 1)
        codes = sorted(set(re.findall(r"error\[(E\d+)\]", out))) or ["error"]
        if len(selected) == 1:
            failed_cases[selected[0]] = codes      # errors without a source location (e.g. E0275 overflow): found by bisection
            return []
        mid = len(selected) // 2
        return settle(selected[:mid], depth + 1) + settle(selected[mid:], depth + 1)

    good = settle(sorted(chunks))
    ok, bad, out = build(good)
    if not ok:
        raise ToolError("T3: modules that compile separately do not compile together:\n" + out[-1500:])
    run = subprocess.run([os.path.join(crate, "target", "release", "t3")], stdout=subprocess.PIPE, stderr=subprocess.PIPE, text=True)
    results = {}
    for l in run.stdout.splitlines():
        if l.startswith("{"):
            x = json.loads(l)
            results[(x["case"], x["k"])] = x
    obs = []
    for rcd in recs:
        mf = manifest.get(rcd["case"], {"emitted": False, "checks": []})
        compiled = mf.get("emitted", False) and rcd["case"] in good
        checks = []
        for ch in mf["checks"]:
            x = results.get((rcd["case"], ch["k"]))
            if compiled and x is None:
                x = {"decode": False, "rest": -1, "same": False}    # the binary died before reaching this check
            if not compiled:
                x = {"decode": False, "rest": -1, "same": False}
            checks.append({"id": ch["id"], "k": ch["k"], "bytes": ch["bytes"], "variant": ch.get("variant", -1), "decode": x["decode"], "rest": x["rest"], "same": x["same"]})
        obs.append({"case": rcd["case"], "input": {"reg": rcd["runs"][0]["reg"], "fam": rcd["fam"]}, "emitted": mf.get("emitted", False), "compiled": compiled,
                    "errors": failed_cases.get(rcd["case"], []), "checks": checks})
    write_ndjson(os.path.join(wd, "obs.ndjson"), obs)
    shutil.rmtree(os.path.join(crate, "target"), ignore_errors=True)
    verdicts, summ = tv_parallel(os.path.join(SPEC, "tv", "TV_T3.tla"), os.path.join(SPEC, "tv", "TV_T3.cfg"), os.path.join(wd, "obs.ndjson"), wd, nproc=8, workers=2)
    if any(v["disagree"] for v in verdicts):
        raise ToolError("T3: scale-encode produced bytes that the specification's decoder rejects (oracle disagreement) - see work/t3/obs.ndjson")
    for v in verdicts:
        v["fam"] = recs[v["case"]]["fam"]
    out = {"verdicts": verdicts, "tv": summ, "cases": len(recs), "checks": sum(v["nchecks"] for v in verdicts), "recs_path": os.path.join(WORK, "cache", key + ".cases.ndjson")}
    shutil.copy(os.path.join(wd, "cases.ndjson"), out["recs_path"])
    json.dump(out, open(cpath, "w"))
    return out


def account(res, prop, verdicts, cases_by_id, prefixes, findings):
    """Split the failed predicates of `prop` into known findings and violations."""
    sites = {f["site"]: f for f in findings if f["property"] == prop}
    for v in verdicts:
        mine = [p for p in v["failed"] if any(p.startswith(x) for x in prefixes)]
        if not mine:
            continue
        explained = {}
        for p in mine:
            for kp, site in v["known"]:
                # a site listed under this property explains the predicate (predicate names are shared across properties
                # for the same observation, e.g. C03.Faithful / C01.Faithful)
                if kp.split(".", 1)[1] == p.split(".", 1)[1] and site in sites:
                    explained[p] = site
        rest = [p for p in mine if p not in explained]
        if rest:
            res.violations.append((f"{prop} predicates failed: {rest} (family {v['fam']})", cases_by_id(v["case"])))
        else:
            for site in set(explained.values()):
                n, what = res.known.get(site, (0, sites[site]["what"]))
                res.known[site] = (n + 1, what)


def check_genprop(prop, prefixes, nontrivial, rule, tier, seed, domain=lambda v: True):
    res = Result(prop, tier, seed)
    g = gen_pipeline(tier, seed)
    res.add_mc(g["mc"])
    res.add_mc(g["tv"])
    verdicts = [v for v in g["verdicts"] if domain(v)]
    cases = None

    def case_of(cid):
        nonlocal cases
        if cases is None:
            cases = {c["case"]: c for c in read_ndjson(g["cases_path"])}
        return cases[cid]
    account(res, prop, verdicts, case_of, prefixes, load_findings())
    res.traces = len(verdicts)
    res.evaluations = len(verdicts)
    res.nontrivial = sum(1 for v in verdicts if nontrivial(v))
    res.drift = sum(1 for v in verdicts if v["drift"])
    res.extra.update({"families": g["fam_counts"], "design_level": g["design"], "mc_actions": g["mc_actions"], "e0_programs": g["e0"]})
    if prop in ("C01", "C02", "C18"):
        t3 = t3_pipeline(tier, seed)
        res.add_mc(t3["tv"])
        t3cases = None

        def t3_case(cid):
            nonlocal t3cases
            if t3cases is None:
                t3cases = {c["case"]: c for c in read_ndjson(t3["recs_path"])}
            return t3cases[cid]
        account(res, prop, t3["verdicts"], t3_case, prefixes, load_findings())
        res.extra["compile_tier"] = {"modules_compiled_by_rustc": sum(1 for v in t3["verdicts"] if v["compiled"]), "modules": t3["cases"],
                                     "byte_strings_round_tripped": t3["checks"]}
    never = [a for a, n in g["mc_actions"].items() if n == 0]
    if never:
        res.extra["vacuity_warning"] = f"actions never taken in MC: {never}"
    res.rule = rule
    some = [case_of(v["case"]) for v in verdicts[:: max(1, len(verdicts) // 3)][:3]]
    res.samples = [{"family": c["fam"], "registry": c["runs"][0]["reg"][:3], "settings_root": c["runs"][0]["settings"]["root"]} for c in some]
    res.assumptions = ["TLC and CommunityModules", "syn's parser for the projection of generated tokens", "serde_json",
                       "the environment model ScaleInfo.tla (conformance-checked against the real derive: E0)"]
    if res.drift:
        print(f"DRIFT property={prop} cases={res.drift} (implementation deviates from the concrete model; MC results transfer only to replayed cases)")
    return res.finish()


GEN_RULE = ("MC: every program of the families G1a (one definition, every type constructor up to depth 2 in struct/variant named/unnamed "
            "position, compact attribute), G1b (generic definition x field expressions x 2 instantiations, with and without id coincidences), "
            "G1c (recursion/nested modules/docs), G2p (same-path families: instantiation / associated-type / version, every order) is registered by "
            "ScaleInfo.tla and run through the Visit actions of Typegen.tla with the predicates evaluated on the model output; TV: a seeded sample "
            "(quick) or all (thorough) of these cases plus the compiled corpus are generated by the real crate, its visit/group/rename hook events are "
            "stepped through the same actions and the predicates are evaluated by TLC on the projected real output; ")


def check_c01(tier, seed):
    return check_genprop("C01", ["C01."], lambda v: v["gen"] == "ok" and v["cf"],
                         GEN_RULE + "non-trivial = coincidence-free case whose generation succeeded (every id judged for wire-faithfulness); distinct by case input",
                         tier, seed)


def check_c02(tier, seed):
    return check_genprop("C02", ["C02."], lambda v: v["gen"] == "ok" or v["gen2"] == "ok",
                         GEN_RULE + "non-trivial = generation succeeded on the registry or on the de-duplicated registry (module judged by WellFormedRust)",
                         tier, seed)


def check_c03(tier, seed):
    return check_genprop("C03", ["C03."], lambda v: v["family"] and ("keep" in v["outs"] or "duplicate" in v["outs"]),
                         GEN_RULE + "domain = registries containing a same-path family; non-trivial = the occupied-path branch (keep or duplicate) was reached",
                         tier, seed, domain=lambda v: v["family"])


def check_c05(tier, seed):
    return check_genprop("C05", ["C05."], lambda v: v["c05"],
                         GEN_RULE + "domain = coincidence-free programs with one definition per path and no associated-type projection; the expected item of every "
                         "definition is derived from the source program alone (Source.tla: ExpectedItem) and compared with the projected real item; "
                         "non-trivial = case in that domain whose generation succeeded",
                         tier, seed)


def check_c17(tier, seed):
    return check_genprop("C17", ["C17."], lambda v: v["cf"] and v["nruns"] > 1,
                         GEN_RULE + "for every case in the coincidence-free one-definition-per-path domain TLC emits two permutations of the registry (reverse, rotation) with consistent "
                         "renumbering (Registry.tla: Permute); the crate generates and de-duplicates all of them: token fingerprints must be equal and the rename partitions must "
                         "correspond under the permutation; scale-info's own retain() restricts the registry to the closure of one id and every retained path must yield the same item; "
                         "non-trivial = case with permuted runs",
                         tier, seed)


def check_c18(tier, seed):
    return check_genprop("C18", ["C18."], lambda v: v["ncomp"] > 0 and v["gen"] == "ok",
                         GEN_RULE + "for every struct and every enum variant of every case the harness builds a standalone struct through create_composite_ir_kind + CompositeIR::new + "
                         "upcast_composite and projects its tokens; TLC compares its field list with the enum's own variant in the generated module, evaluates Faithful on the payload and "
                         "checks derives/attributes/docs; non-trivial = generation succeeded and at least one composite was built",
                         tier, seed)


def check_c07(tier, seed):
    return check_genprop("C07", ["C07."], lambda v: v["nsubs"] > 0 and v["gen"] == "ok" and "substituted" in v["outs"],
                         GEN_RULE + "family G7 puts a substitutable generic (and the prelude BTreeMap) in every position (field, Vec/Option/tuple/array, argument of another generic, "
                         "nested in itself, variants, under a parent parameter, boxed, as resolve_type_path root) x 14 rule sets (pass-through, declared generics in order / swapped / nested / "
                         "repeated / missing / extra fixed argument / fewer or more source parameters / fixed arguments, two rules, a replaced rule); TLC checks on the projected real output that the "
                         "source path has no item and no reference anywhere and matches every occurrence against the rule's target pattern (SubstMatch inside Faithful); "
                         "non-trivial = settings with rules, generation succeeded and a substituted entry was visited",
                         tier, seed, domain=lambda v: v["nsubs"] > 0)


def check_c08(tier, seed):
    return check_genprop("C08", ["C08."], lambda v: v["gen"] == "ok" and (v["ncalls"] > 0 or v["cas"]),
                         GEN_RULE + "family G8: a type graph with every structural edge kind (field, variant field, tuple, array, sequence, map, compact wrapper, generic argument, "
                         "phantom parameter, cycles through Option<Box>), an unreachable type and three root sets x every 1- and 2-call selection of a pool of 11 global / per-type / "
                         "recursive derive and attribute registrations (+ all at once); family G8b: single-field wrappers over every primitive (named, unnamed, boxed, compact, Cow, "
                         "two fields, enum, generic, phantom) with CompactAs configured or not; predicate: Must <= derives <= May per emitted item, Must = closure over the generated "
                         "module from the root item, May = registry reachability from any id of the root path; non-trivial = some registration or CompactAs configured and generation succeeded",
                         tier, seed)


def check_c04(tier, seed):
    return check_genprop("C04", ["C04."], lambda v: v["renamed"] > 0,
                         GEN_RULE + "every case also runs ensure_unique_type_paths twice and generation on the result; non-trivial = at least one path renamed",
                         tier, seed)


def simple_multi_run_check(prop, mc_module, mc_cfg, tv_module, quick_n, rule, tier, seed, extra_run=None, mode="gen"):
    """MC module emits CASE lines with {reg, settings: [..]}; each settings record is one run of the case."""
    res = Result(prop, tier, seed)
    wd = workdir(prop)
    out = tlc_run(os.path.join(SPEC, "mc", mc_module), os.path.join(SPEC, "mc", mc_cfg), os.path.join(wd, "mc.out"),
                  os.path.join(wd, "md"), workers=8, timeout=3000, xmx="12g")
    res.add_mc(tlc_summary(out))
    cases = tlc_lines(out, "CASE ")
    n_all = len(cases)
    rnd = random.Random(seed)
    if tier == "quick" and quick_n and len(cases) > quick_n:
        rnd.shuffle(cases)
        cases = cases[:quick_n]
    recs = []
    for i, c in enumerate(cases):
        runs = [dict({"reg": c["reg"], "settings": s, "dedup": False, "composites": False, "teq": [], "repeat": 0}, **(extra_run or {})) for s in c["settings"]]
        r = {k: v for k, v in c.items() if k not in ("reg", "settings")}
        r.update({"case": i, "runs": runs})
        recs.append(r)
    write_ndjson(os.path.join(wd, "cases.ndjson"), recs)
    harness_run(mode, os.path.join(wd, "cases.ndjson"), os.path.join(wd, "obs.ndjson"), jobs=12)
    obs = read_ndjson(os.path.join(wd, "obs.ndjson"))
    for o in obs:
        if o.get("crash"):
            res.violations.append((f"{prop}: harness worker {o['crash']} (abort / non-termination in the code under test)", recs[o["i"]]))
    if res.violations:
        return res, recs, []
    bad_setup = [o for o in obs if any(r.get("setup") != "ok" for r in o["runs"])]
    if bad_setup:
        raise ToolError(f"harness could not set up case {bad_setup[0]['case']}")
    verdicts, summ = tv_parallel(os.path.join(SPEC, "tv", tv_module), os.path.join(SPEC, "tv", tv_module.replace(".tla", ".cfg")),
                                 os.path.join(wd, "obs.ndjson"), wd, nproc=8, workers=2)
    res.add_mc(summ)
    if len(verdicts) != len(recs):
        raise ToolError(f"TV judged {len(verdicts)} of {len(recs)} cases")
    account(res, prop, verdicts_with_fam(verdicts), lambda cid: recs[cid], [prop + "."], load_findings())
    res.traces = sum(len(r["runs"]) for r in recs)
    res.evaluations = len(recs)
    res.nontrivial = sum(1 for v in verdicts if v.get("nontrivial", True))
    res.extra["cases_model_checked"] = n_all
    res.rule = rule
    res.samples = [{"registry": r["runs"][0]["reg"][:2], "settings": [x["settings"]["root"] for x in r["runs"]]} for r in recs[:: max(1, len(recs) // 3)][:3]]
    res.assumptions = ["TLC and CommunityModules", "harness projection (syn)", "ScaleInfo.tla (E0)"]
    return res, recs, verdicts


def verdicts_with_fam(vs):
    for v in vs:
        v.setdefault("fam", "")
        v.setdefault("known", [])
    return vs


def check_c09(tier, seed):
    res, recs, verdicts = simple_multi_run_check(
        "C09", "MC_C09.tla", "MC_C09.cfg", "TV_C09.tla", 700,
        "MC: 41 registries covering every heap-allocated prelude type (Vec, String, Box, BTreeMap, BTreeSet, BinaryHeap, VecDeque, Cow, nested, under a generic parameter), compact, "
        "bit sequences and documented types x all 2^6 combinations of the switches (alloc path, docs, codec attributes, root name, Compact path, DecodedBits path): the model output obeys "
        "the per-switch rules and equals the output under each single flipped switch after erasing that switch's tokens (Switches.tla); TV: a seeded sample (quick) or all (thorough) of the "
        "(registry, combination) cases is generated by the real crate under the base settings and the six one-switch flips and TLC evaluates the same rules and erasure equalities on the "
        "projected modules; non-trivial = the base module has at least one field; distinct by (registry, combination)", tier, seed)
    return res.finish()


def check_c16(tier, seed):
    res = Result("C16", tier, seed)
    wd = workdir("C16")
    cfg = "MC_C16.cfg" if tier == "quick" else "MC_C16_thorough.cfg"
    out = tlc_run(os.path.join(SPEC, "mc", "MC_C16.tla"), os.path.join(SPEC, "mc", cfg), os.path.join(wd, "mc.out"),
                  os.path.join(wd, "md"), workers=8, timeout=3000, xmx="12g")
    res.add_mc(tlc_summary(out))
    hist = tlc_lines(out, "CASE ")
    n_all = len(hist)
    rnd = random.Random(seed)
    lim = 2500 if tier == "quick" else 20000
    if len(hist) > lim:
        rnd.shuffle(hist)
        hist = hist[:lim]
    # probe registry and base settings: taken from the specification (MC_C16.ProbeReg is what ScaleInfo.tla registers); here via the corpus-free route:
    probe = tlc_eval_probe(wd)
    recs = []
    for i, h in enumerate(hist):
        calls = []
        for c in h["calls"]:
            d = dict(c)
            if c["op"] in ("insert", "insert_if_not_exists"):
                d["src"], d["dst"] = c["srcText"], c["dstText"]
                d["srcT"], d["dstT"] = c["src"], c["dst"]
            d["elems"] = [dict(e, src=e["srcText"], dst=e["dstText"], srcT=e["src"], dstT=e["dst"]) for e in c["elems"]]
            calls.append(d)
        # the judge sees the structured form, the harness the text form
        recs.append({"case": i, "reg": probe["reg"], "settings": probe["settings"], "probes": [["probe", "A"], ["probe", "B"], ["probe", "G"], ["probe", "Nope"]],
                     "calls": h["calls"], "calls_text": calls})
    write_ndjson(os.path.join(wd, "cases.ndjson"), [dict(r, calls=r["calls_text"]) for r in recs])
    harness_run("builder", os.path.join(wd, "cases.ndjson"), os.path.join(wd, "obs0.ndjson"), jobs=12)
    obs = read_ndjson(os.path.join(wd, "obs0.ndjson"))
    for o in obs:
        if o.get("crash"):
            res.violations.append((f"C16: harness worker {o['crash']}", recs[o["i"]]))
        elif o.get("setup") != "ok":
            raise ToolError(f"builder harness setup failed: {o.get('setup')}")
        else:
            o["input"] = {k: v for k, v in recs[o["i"]].items() if k != "calls_text"}
    if res.violations:
        return res.finish()
    write_ndjson(os.path.join(wd, "obs.ndjson"), obs)
    verdicts, summ = tv_parallel(os.path.join(SPEC, "tv", "TV_C16.tla"), os.path.join(SPEC, "tv", "TV_C16.cfg"),
                                 os.path.join(wd, "obs.ndjson"), wd, nproc=8, workers=2)
    res.add_mc(summ)
    if len(verdicts) != len(recs):
        raise ToolError(f"TV judged {len(verdicts)} of {len(recs)} histories")
    account(res, "C16", verdicts_with_fam(verdicts), lambda cid: recs[cid], ["C16."], load_findings())
    res.traces = len(verdicts)
    res.evaluations = sum(len(r["calls"]) for r in recs)
    res.nontrivial = sum(1 for v in verdicts if v["nontrivial"])
    res.exhaustive = n_all == len(recs)
    res.extra["histories_model_checked"] = n_all
    res.rule = ("MC: every history of the 21-call alphabet (global / per-type / recursive derives and attributes; insert, insert-if-absent, extend with valid arguments, a relative target, "
                "parenthesised generics, a non-identifier source argument, a non-path target argument, a crate:: target) up to length 3 (quick) / 4 (thorough) with the invariants "
                "'derives are unions by comprehension over the history', 'rule = last accepted insert', 'rejected call changes nothing', 'one rule per path', 'documented kinds'; "
                "TV: a seeded sample (quick) of the maximal histories is replayed call by call on the real builders, after every call the result kind and the observable state "
                "(iter/contains, default and listed derives, derives and resolved paths generated for a probe registry) are compared by TLC with the abstract state after the same action; "
                "non-trivial = history contains a substitute call; distinct by history")
    res.samples = [[c["op"] + ":" + (c.get("srcText") or PathOf(c)) for c in r["calls"]] for r in recs[:: max(1, len(recs) // 3)][:3]]
    res.assumptions = ["TLC and CommunityModules", "harness projection (syn)", "ScaleInfo.tla (E0) for the probe registry"]
    return res.finish()


def PathOf(c):
    return "::".join(c["path"]["segs"])


def tlc_eval_probe(wd):
    """The probe registry and base settings are constants of the specification: let TLC print them."""
    mod = os.path.join(wd, "Probe.tla")
    open(mod, "w").write("""---- MODULE Probe ----
EXTENDS MC_C16
ProbeEmit == PrintT("PROBE " \\o ToJson([reg |-> ProbeReg, settings |-> Base]))
====
""")
    open(os.path.join(wd, "Probe.cfg"), "w").write("CONSTANTS\n  MAXLEN = 0\nSPECIFICATION Spec\nINVARIANTS ProbeEmit\nCHECK_DEADLOCK FALSE\n")
    shutil.copy(os.path.join(SPEC, "mc", "MC_C16.tla"), os.path.join(wd, "MC_C16.tla"))
    out = tlc_run(mod, os.path.join(wd, "Probe.cfg"), os.path.join(wd, "probe.out"), os.path.join(wd, "mdp"), workers=1, timeout=300)
    return tlc_lines(out, "PROBE ")[0]


def check_c11(tier, seed):
    res = Result("C11", tier, seed)
    wd = workdir("C11")
    out = tlc_run(os.path.join(SPEC, "mc", "MC_C11.tla"), os.path.join(SPEC, "mc", "MC_C11.cfg"), os.path.join(wd, "mc.out"),
                  os.path.join(wd, "md"), workers=8, timeout=1800, xmx="8g")
    res.add_mc(tlc_summary(out))
    cases = tlc_lines(out, "CASE ")
    recs = [{"case": i, "reg": c["reg"], "settings": c["settings"][0], "queries": c["queries"], "repeat": 3} for i, c in enumerate(cases)]
    write_ndjson(os.path.join(wd, "cases.ndjson"), recs)
    harness_run("validate", os.path.join(wd, "cases.ndjson"), os.path.join(wd, "obs.ndjson"), jobs=12)
    obs = read_ndjson(os.path.join(wd, "obs.ndjson"))
    for o in obs:
        if o.get("crash"):
            res.violations.append((f"C11: harness worker {o['crash']}", recs[o["i"]]))
        elif o.get("setup") != "ok":
            raise ToolError(f"validate harness setup failed: {o.get('setup')}")
    if res.violations:
        return res.finish()
    verdicts, summ = tv_parallel(os.path.join(SPEC, "tv", "TV_C11.tla"), os.path.join(SPEC, "tv", "TV_C11.cfg"),
                                 os.path.join(wd, "obs.ndjson"), wd, nproc=8, workers=2)
    res.add_mc(summ)
    if len(verdicts) != len(recs):
        raise ToolError(f"TV judged {len(verdicts)} of {len(recs)} cases")
    account(res, "C11", verdicts_with_fam(verdicts), lambda cid: recs[cid], ["C11."], load_findings())
    res.traces = len(verdicts)
    res.evaluations = len(verdicts) * 3
    res.nontrivial = sum(1 for v in verdicts if v["nontrivial"])
    res.exhaustive = True
    res.rule = ("MC: two registries (paths sharing final identifiers, a same-path family, prelude paths) x every selection of up to 3 entries from a pool of 9 specific / recursive derive and "
                "attribute registrations over known and unknown paths (the same path in both maps, derives and attributes mixed) x 5 substitute selections; the validation loop is a state "
                "machine whose map iteration order is nondeterministic and every order must yield - as sets - the reference result defined by comprehension; TV: every case is validated 3x by "
                "the real crate with freshly built settings and 6 similar-path queries are answered; TLC compares with the reference; non-trivial = some unknown path; distinct by (registry, settings)")
    res.samples = [{"calls": [c["op"] + ":" + "::".join(c["path"]["segs"]) for c in r["settings"]["derive_calls"]], "subs": len(r["settings"]["subs"])} for r in recs[:: max(1, len(recs) // 3)][:3]]
    res.assumptions = ["TLC and CommunityModules", "harness: paths rendered as token strings without spaces"]
    return res.finish()


def registries_for_description(wd, tier, seed, res, mc_module, fams, extra_const=""):
    """MC over (registry, id) of the families; returns registries (CASE lines) + corpus registries"""
    regs = []
    for f in fams:
        out = tlc_run(os.path.join(SPEC, "mc", mc_module), os.path.join(SPEC, "mc", mc_module.replace(".tla", f"_{f}.cfg")),
                      os.path.join(wd, f"mc_{f}.out"), os.path.join(wd, "md"), workers=8, timeout=1800, xmx="8g")
        res.add_mc(tlc_summary(out))
        for c in tlc_lines(out, "CASE "):
            regs.append({"fam": f, "reg": c["reg"]})
    subprocess.run([VH, "corpus", os.path.join(wd, "corpus.ndjson")], check=True)
    for e in read_ndjson(os.path.join(wd, "corpus.ndjson")):
        if len(e["reg"]) <= 40:
            regs.append({"fam": "corpus:" + e["name"], "reg": e["reg"]})
    # closed sub-registries of real chain metadata (family G6)
    meta = os.path.join(REPO, "artifacts", "polkadot_metadata.scale")
    if os.path.exists(meta):
        subprocess.run([VH, "polkadot", meta, os.path.join(wd, "polkadot.ndjson"), str(seed), str(40 if tier == "quick" else 600), "30"], check=True)
        for e in read_ndjson(os.path.join(wd, "polkadot.ndjson")):
            regs.append({"fam": "G6", "reg": e["reg"]})
    return regs


def check_c13(tier, seed):
    res = Result("C13", tier, seed)
    wd = workdir("C13")
    regs = registries_for_description(wd, tier, seed, res, "MC_C13.tla", ["G1c", "G8", "G1a_1", "G1a_2", "G2p_2", "G13"])
    n_all = len(regs)
    rnd = random.Random(seed)
    if tier == "quick":
        keep = [r for r in regs if not r["fam"].startswith("G1a") and r["fam"] not in ("G2p_2", "G13")]
        rest = [r for r in regs if r["fam"].startswith("G1a") or r["fam"] == "G2p_2"]
        g13 = [r for r in regs if r["fam"] == "G13"]
        rnd.shuffle(rest)
        rnd.shuffle(g13)
        regs = keep + rest[:900] + g13[:500]
    recs = [{"case": i, "fam": r["fam"], "reg": r["reg"], "ids": []} for i, r in enumerate(regs)]
    write_ndjson(os.path.join(wd, "cases.ndjson"), recs)
    harness_run("desc", os.path.join(wd, "cases.ndjson"), os.path.join(wd, "obs.ndjson"), jobs=12, stall=30)
    obs = read_ndjson(os.path.join(wd, "obs.ndjson"))
    for o in obs:
        if o.get("crash"):
            res.violations.append((f"C13: description did not terminate / aborted the process ({o['crash']})", recs[o["i"]]))
    if res.violations:
        return res.finish()
    verdicts, summ = tv_parallel(os.path.join(SPEC, "tv", "TV_C13.tla"), os.path.join(SPEC, "tv", "TV_C13.cfg"),
                                 os.path.join(wd, "obs.ndjson"), wd, nproc=8, workers=2)
    res.add_mc(summ)
    expected = sum(len(o["descs"]) for o in obs)
    if len(verdicts) != expected:
        raise ToolError(f"TV judged {len(verdicts)} of {expected} descriptions")
    account(res, "C13", verdicts_with_fam(verdicts), lambda cid: recs[cid], ["C13."], load_findings())
    res.traces = len(verdicts)
    res.evaluations = len(verdicts)
    res.nontrivial = sum(1 for v in verdicts if v["nontrivial"])
    res.drift = sum(1 for v in verdicts if v["drift"])
    res.extra["registries_model_checked"] = n_all
    res.rule = ("MC: for every registry of G1a (depth<=1), G1c, G8 and the same-path families G2p and every id the concrete model of type_description terminates successfully and its "
                "tokens are accepted by the abstract acceptor DescAccepts (lock-step walk of registry and tokens; every struct/enum reachable through fields and elements expanded at "
                "least once, otherwise name + arguments); TV: the real crate describes every id of a seeded sample (quick) / all (thorough) of these registries and of the compiled "
                "corpus, formatted and unformatted; the enter/short/exit hook events are stepped through the Transformer protocol actions with the invariant 'no named id twice on the "
                "stack', the lexed text is judged by DescAccepts and compared with the model's prediction, formatted = unformatted modulo whitespace; non-termination shows as a worker "
                "timeout; non-trivial = the id is a struct or enum; distinct by (registry, id)")
    res.samples = [{"family": r["fam"], "registry": r["reg"][:2]} for r in recs[:: max(1, len(recs) // 3)][:3]]
    res.assumptions = ["TLC and CommunityModules", "harness lexer: identifier/number runs and single punctuation characters, whitespace dropped", "ScaleInfo.tla (E0)"]
    if res.drift:
        print(f"DRIFT property=C13 cases={res.drift}")
    return res.finish()


def example_check(prop, mode, tv_module, key, tier, seed, rule, settings=None):
    res = Result(prop, tier, seed)
    wd = workdir(prop)
    regs = registries_for_description(wd, tier, seed, res, "MC_C12.tla", ["G1c", "G8", "G1a_1", "G13"])
    n_all = len(regs)
    rnd = random.Random(seed)
    if tier == "quick":
        keep = [r for r in regs if not r["fam"].startswith("G1a") and r["fam"] != "G13"]
        rest = [r for r in regs if r["fam"].startswith("G1a")]
        g13 = [r for r in regs if r["fam"] == "G13"]
        rnd.shuffle(rest)
        rnd.shuffle(g13)
        regs = keep + rest[:500] + g13[:300]
        rnd.shuffle(regs)      # alternate settings are assigned by position
    seeds = list(range(0, 4)) if tier == "quick" else list(range(0, 16))
    recs = [{"case": i, "fam": r["fam"], "reg": r["reg"], "ids": [], "seeds": seeds} for i, r in enumerate(regs)]
    if settings is not None:
        alt = json.loads(json.dumps(settings))
        alt.update({"root": "runtime_types", "alloc_std": False, "alloc": {"k": "path", "lead": True, "segs": ["alloc"], "args": []},
                    "compact": {"k": "path", "lead": False, "segs": ["crate", "codec", "Compact"], "args": []}})
        # every third case uses the two middleware hooks of the public API: a type-replacing ty_middleware and a path-pruning ty_path_middleware
        mwl = [{"ident": n, "expr": "dev::alice", "tree": {"k": "path", "path": {"lead": False, "segs": ["dev", "alice"], "generic": False}}} for n in ("U", "X", "N1", "Tree", "Gen")]
        for i, r in enumerate(recs):
            st = json.loads(json.dumps(settings if i % 2 == 0 else alt))
            if i % 3 == 0:
                st["mw"], st["droproot"] = mwl, True
                r["mw"], r["pmw"] = mwl, "droproot"
            else:
                r["mw"], r["pmw"] = [], ""
            r["settings"] = st
    write_ndjson(os.path.join(wd, "cases.ndjson"), recs)
    harness_run(mode, os.path.join(wd, "cases.ndjson"), os.path.join(wd, "obs.ndjson"), jobs=12, stall=30)
    obs = read_ndjson(os.path.join(wd, "obs.ndjson"))
    for o in obs:
        if o.get("crash"):
            res.violations.append((f"{prop}: example generation did not terminate / aborted the process ({o['crash']})", recs[o["i"]]))
        elif o.get("setup") != "ok":
            raise ToolError(f"{mode} harness setup failed: {o.get('setup')}")
    if res.violations:
        return res.finish()
    verdicts, summ = tv_parallel(os.path.join(SPEC, "tv", tv_module), os.path.join(SPEC, "tv", tv_module.replace(".tla", ".cfg")),
                                 os.path.join(wd, "obs.ndjson"), wd, nproc=8, workers=2)
    res.add_mc(summ)
    expected = sum(len(o[key]) for o in obs)
    if len(verdicts) != expected:
        raise ToolError(f"TV judged {len(verdicts)} of {expected} examples")
    account(res, prop, verdicts_with_fam(verdicts), lambda cid: recs[cid], [prop + "."], load_findings())
    res.traces = len(verdicts)
    res.evaluations = len(verdicts)
    res.nontrivial = sum(1 for v in verdicts if v["nontrivial"])
    res.extra.update({"registries_model_checked": n_all, "seeds": seeds,
                      "outcomes": {k: sum(1 for v in verdicts if v["res"] == k) for k in sorted({v["res"] for v in verdicts})}})
    res.rule = rule
    res.samples = [{"family": r["fam"], "registry": r["reg"][:2], "seeds": seeds} for r in recs[:: max(1, len(recs) // 3)][:3]]
    res.assumptions = ["TLC and CommunityModules", "harness projection of scale_value::Value / syn::Expr into trees (numbers as decimal strings)", "ScaleInfo.tla (E0)",
                       "scale-value's encode_as_type / decode_as_type as the API the statement names; Values.tla's decoder as the independent oracle"]
    return res.finish()


EX_RULE = ("MC: over every (registry, id) of G1a (depth<=1), G1c (+ empty enums, 256-bit integers, zero-length arrays) and G8/G8b the specification's CanError "
           "(in-progress marker, enum without variants) is false whenever the reachable types contain no cycle and no empty enum, and true on cycles; TV: the real crate generates an example for "
           "every id of a seeded sample (quick) / all (thorough) of these registries and of the compiled corpus for seeds 0..3 (quick) / 0..15 (thorough), twice per seed; the enter/short/exit hook "
           "events are stepped through the Transformer protocol actions with the policy (error on recursion, recompute on a hit); ")


def check_c12(tier, seed):
    return example_check("C12", "sval", "TV_C12.tla", "vals", tier, seed,
                         EX_RULE + "TLC judges the projected value tree with ValueConforms, requires encode_as_type to succeed, decodes the bytes with the independent decoder of Values.tla "
                         "(must consume exactly all bytes), requires decode_as_type to return an equal value with no input left, equal values for equal seeds and a value wherever "
                         "CanError is false; non-trivial = a value of a non-primitive type; distinct by (registry, id, seed)")


def check_c14(tier, seed):
    base = {"root": "types", "alloc_std": True, "alloc": {"k": "path", "lead": True, "segs": ["std"], "args": []}, "docs": False, "codec": True,
            "has_compact": True, "compact": {"k": "path", "lead": True, "segs": ["codec", "Compact"], "args": []},
            "has_bits": True, "bits": {"k": "path", "lead": True, "segs": ["ext", "DecodedBits"], "args": []},
            "has_compact_as": False, "compact_as": {"k": "path", "lead": True, "segs": ["codec", "CompactAs"], "args": []}, "derive_calls": [], "subs": [],
            "mw": [], "droproot": False}
    return example_check("C14", "rval", "TV_C14.tla", "exprs", tier, seed,
                         EX_RULE + "the tokens are parsed with syn::Expr and TLC judges the projected expression with ExprConforms against the module the generator emits for the same registry and "
                         "settings (literal paths without generics, field names and arity incl. the marker, typed literals in range, tuple/array/vec arity, Compact(..) on explicitly Compact-typed "
                         "fields, Box::new optional); domain without bit sequences and 256-bit integers; non-trivial = an expression for a struct or enum; distinct by (registry, id, seed)",
                         settings=base)


def check_c06(tier, seed):
    reps = 6 if tier == "quick" else 20
    fresh = 2 if tier == "quick" else 6
    res, recs, verdicts = simple_multi_run_check(
        "C06", "MC_C06.tla", "MC_C06.cfg", "TV_C06.tla", None,
        "MC: (a) de-duplication as a state machine whose Rename action picks any pending path (HashMap order): on registries with up to three same-path families every order ends in the "
        "registry of the deterministic run; (b) the model output is the same for four registration orders of the same derives / attributes / substitutes; TV: every case is generated by the real "
        f"crate under the four registration orders, each {reps}x in-process with freshly built settings (fresh hash seeds) and {fresh}x in fresh processes, de-duplicated and validated; TLC requires "
        "one token fingerprint per case, strictly increasing derive and attribute lists (by the code points of their token strings), one derive attribute per item, equal de-duplicated "
        "registries and validation results equal as sets; non-trivial = some item carries more than one derive; distinct by registry", tier, seed,
        extra_run={"repeat": reps, "fresh": fresh, "dedup": True, "validate": 2})
    # the other determinism observations ride on the generator-family pipeline: validation repeated with fresh maps (C11 cases)
    res.extra["generations_per_case"] = 4 * (1 + reps + fresh)
    return res.finish()


def check_c10(tier, seed):
    res = Result("C10", tier, seed)
    wd = workdir("C10")
    rnd = random.Random(seed)
    # (a) fault injection, family G4
    cases = []
    for bases in ("G1c", "G1a_1"):
        out = tlc_run(os.path.join(SPEC, "mc", "MC_Fault.tla"), os.path.join(SPEC, "mc", f"MC_Fault_{bases}.cfg"),
                      os.path.join(wd, f"mc_{bases}.out"), os.path.join(wd, "md"), workers=8, timeout=3000, xmx="12g")
        res.add_mc(tlc_summary(out))
        cases += tlc_lines(out, "CASE ")
    n_all = len(cases)
    kinds_all = {}
    for c in cases:
        kinds_all[c["kind"] + "->" + c["expect"]["gen"]["res"]] = kinds_all.get(c["kind"] + "->" + c["expect"]["gen"]["res"], 0) + 1
    if tier == "quick":
        # stratified: every (fault kind, expected outcome) class is represented
        by = {}
        for c in cases:
            by.setdefault(c["kind"] + c["expect"]["gen"]["res"], []).append(c)
        cases = []
        for k in sorted(by):
            rnd.shuffle(by[k])
            cases += by[k][:700]
    recs = [{"case": i, "fam": "G4", "kind": c["kind"], "site": c["site"], "expect": c["expect"],
             "runs": [{"reg": c["reg"], "settings": c["settings"], "dedup": True, "composites": False, "teq": [], "repeat": 0}]}
            for i, c in enumerate(cases)]
    write_ndjson(os.path.join(wd, "cases.ndjson"), recs)
    harness_run("gen", os.path.join(wd, "cases.ndjson"), os.path.join(wd, "obs.ndjson"), jobs=12)
    obs = read_ndjson(os.path.join(wd, "obs.ndjson"))
    for o in obs:
        if o.get("crash"):
            res.violations.append((f"C10: harness worker {o['crash']} (process abort / non-termination in the code under test)", recs[o["i"]]))
    if res.violations:
        return res.finish()
    bad_setup = [o for o in obs if o["runs"][0].get("setup") != "ok"]
    if bad_setup:
        raise ToolError(f"harness could not set up fault case {bad_setup[0]['case']}: {bad_setup[0]['runs'][0].get('setup')}")
    verdicts, summ = tv_parallel(os.path.join(SPEC, "tv", "TV_Fault.tla"), os.path.join(SPEC, "tv", "TV_Fault.cfg"),
                                 os.path.join(wd, "obs.ndjson"), wd, nproc=8, workers=2)
    res.add_mc(summ)
    if len(verdicts) != len(recs):
        raise ToolError(f"TV judged {len(verdicts)} of {len(recs)} fault cases")
    for v in verdicts:
        if v["failed"]:
            res.violations.append((f"C10 predicates failed: {v['failed']} (fault {v['kind']}, expected {v['expect']}, got {v['gen']})", recs[v["case"]]))
    # (b) fault-free well-formed registries: the generator family pipeline
    g = gen_pipeline(tier, seed)
    res.add_mc(g["mc"])
    res.add_mc(g["tv"])
    gcases = None
    for v in g["verdicts"]:
        mine = [p for p in v["failed"] if p.startswith("C10.")]
        if mine:
            if gcases is None:
                gcases = {c["case"]: c for c in read_ndjson(g["cases_path"])}
            res.violations.append((f"C10 predicates failed on fault-free input: {mine} (family {v['fam']})", gcases[v["case"]]))
    res.traces = len(verdicts) + len(g["verdicts"])
    res.evaluations = res.traces
    res.nontrivial = sum(1 for v in verdicts if v["expect"] != "ok")
    res.extra.update({"fault_cases_model_checked": n_all, "fault_classes": kinds_all, "fault_free_cases": len(g["verdicts"])})
    res.rule = ("MC: every single fault (id mismatch at every entry, mixed fields at every composite/variant, compact/bits path absent, dangling id at every "
                "parameter/field/variant-field/element/inner position) of every base registry of G1c and G1a depth<=1 with unique paths is run through the generation "
                "loop, the de-duplication model and path resolution with the invariant 'documented kind of the fault class or success, never panic'; TV: a stratified "
                "sample (quick) or all (thorough) of these cases is executed by the real crate (generate, ensure_unique_type_paths, resolve_type_path for every id, each under "
                "catch_unwind in a supervised worker) and TLC compares kind and payload with the specification's evaluation-order result; fault-free part: all cases of the "
                "generator families; non-trivial = the fault is reached (expected outcome is an error); distinct by (registry, fault site)")
    res.samples = [{"kind": r["kind"], "site": r["site"], "expect": r["expect"]["gen"], "registry": r["runs"][0]["reg"][:2]} for r in recs[:: max(1, len(recs) // 3)][:3]]
    res.assumptions = ["TLC and CommunityModules", "harness projection", "ScaleInfo.tla (E0)"]
    return res.finish()


# ------------------------------------------------------------------------------------------
# C15 formatter

def balanced_strings_from_sim(wd, seed, num, res, cfg="GEN_C15.cfg"):
    """Long balanced strings: TLC simulation of the generator spec GEN_C15."""
    out = tlc_run(os.path.join(SPEC, "mc", "GEN_C15.tla"), os.path.join(SPEC, "mc", cfg),
                  os.path.join(wd, "gen.out"), os.path.join(wd, "mdgen"), workers=1,
                  extra=("-simulate", f"num={num}", "-depth", "260", "-seed", str(seed)), timeout=600)
    strs = [tuple(r["s"]) for r in tlc_lines(out, "CASE ")]
    return [list(s) for s in dict.fromkeys(strs)]


def check_c15(tier, seed):
    res = Result("C15", tier, seed)
    wd = workdir("C15")
    cfg = os.path.join(SPEC, "mc", "MC_C15.cfg" if tier == "quick" else "MC_C15_thorough.cfg")
    out = tlc_run(os.path.join(SPEC, "mc", "MC_C15.tla"), cfg, os.path.join(wd, "mc.out"),
                  os.path.join(wd, "md"), workers=8, extra=("-coverage", "1") + (() if tier == "quick" else ("-maxSetSize", "20000000")),
                  timeout=3000, xmx="16g" if tier == "quick" else "24g")
    res.add_mc(tlc_summary(out))
    res.extra["mc_actions"] = {k: v[1] for k, v in coverage_actions(out).items() if k.endswith("_")}
    if any(v == 0 for v in res.extra["mc_actions"].values()) or len(res.extra["mc_actions"]) < 8:
        raise ToolError(f"vacuity: a formatter action was never taken in MC: {res.extra['mc_actions']}")
    strings = [r["s"] for r in tlc_lines(out, "CASE ")]
    n_exh = len(strings)
    sim = balanced_strings_from_sim(wd, seed, 300 if tier == "quick" else 3000, res)
    rnd = random.Random(seed)
    rnd.shuffle(sim)
    sim = sim[: 1500 if tier == "quick" else 20000]
    deep = balanced_strings_from_sim(wd, seed + 1, 60 if tier == "quick" else 600, res, cfg="GEN_C15_deep.cfg")
    deep = sorted(deep, key=len, reverse=True)[: 300 if tier == "quick" else 4000]   # the deepest nests are the longest walks
    sim += deep
    strings += sim
    # every description the crate itself produces for the corpus (C13 runs)
    subprocess.run([VH, "corpus", os.path.join(wd, "corpus.ndjson")], check=True)
    corpus = read_ndjson(os.path.join(wd, "corpus.ndjson"))
    write_ndjson(os.path.join(wd, "desc_cases.ndjson"), [{"case": i, "reg": e["reg"], "ids": []} for i, e in enumerate(corpus)])
    harness_run("desc", os.path.join(wd, "desc_cases.ndjson"), os.path.join(wd, "desc_obs.ndjson"))
    descs = []
    for o in read_ndjson(os.path.join(wd, "desc_obs.ndjson")):
        for d in o.get("descs", []):
            if d["res"] == "ok" and len(d["codes"]) <= 4000:
                descs.append(tuple(d["codes"]))
    descs = [list(s) for s in dict.fromkeys(descs)]
    strings += descs
    cases = [{"case": i, "s": s} for i, s in enumerate(strings)]
    write_ndjson(os.path.join(wd, "cases.ndjson"), cases)
    harness_run("fmt", os.path.join(wd, "cases.ndjson"), os.path.join(wd, "obs.ndjson"))
    normalise_crashes(os.path.join(wd, "obs.ndjson"), cases,
                      lambda c, why: {"res": why, "in": c["s"], "out": [], "events": []})
    verdicts, summ = tv_parallel(os.path.join(SPEC, "tv", "TV_C15.tla"), os.path.join(SPEC, "tv", "TV_C15.cfg"),
                                 os.path.join(wd, "obs.ndjson"), wd, nproc=8, workers=2)
    res.add_mc(summ)
    if len(verdicts) != len(cases):
        raise ToolError(f"TV judged {len(verdicts)} of {len(cases)} cases")
    res.traces = len(verdicts)
    res.evaluations = len(cases)
    res.nontrivial = sum(1 for v in verdicts if v["nontrivial"])
    res.drift = sum(1 for v in verdicts if v["drift"])
    res.exhaustive = True
    res.rule = (f"MC: every string over the 9-character alphabet up to the configured length (one initial state each, one "
                f"step per character, look-ahead constant 3); TV: all {n_exh} strings up to LGEN replayed through the real formatter "
                f"with per-character hook events, {len(sim)} balanced strings from TLC simulation of GEN_C15 (seeded) and {len(descs)} "
                f"descriptions produced by the crate for the compiled corpus; non-trivial = contains at least one opening bracket; distinct by string")
    by_case = {c["case"]: c for c in cases}
    for v in verdicts:
        if not v["ok"]:
            res.violations.append((f"C15 predicates failed: {v['failed']} at event {v['at']}", by_case[v["case"]]))
    res.samples = [{"input": "".join(map(chr, c["s"]))} for c in (cases[777], cases[n_exh + 1], cases[-1])]
    res.assumptions = ["TLC, CommunityModules Json/IOUtils", "harness projection of strings into code-point arrays"]
    return res.finish()


def check_e0_cmd(tier, seed):
    n, _ = check_e0(workdir("e0"))
    print(f"E0 ok: {n} mirrored programs")
    return 0


CHECKS = {"C15": check_c15, "E0": check_e0_cmd, "C01": check_c01, "C02": check_c02, "C03": check_c03, "C04": check_c04, "C10": check_c10, "C05": check_c05, "C17": check_c17, "C18": check_c18, "C07": check_c07, "C08": check_c08, "C09": check_c09, "C16": check_c16, "C11": check_c11, "C13": check_c13, "C12": check_c12, "C14": check_c14, "C06": check_c06}


REPLAY = {
    # property: (harness mode, [TV modules])
    "C01": ("gen", ["TV_Gen.tla", "TV_Dedup.tla"]), "C02": ("gen", ["TV_Gen.tla", "TV_Dedup.tla"]), "C03": ("gen", ["TV_Gen.tla", "TV_Dedup.tla"]),
    "C04": ("gen", ["TV_Dedup.tla"]), "C05": ("gen", ["TV_Gen.tla"]), "C07": ("gen", ["TV_Gen.tla"]), "C08": ("gen", ["TV_Gen.tla"]),
    "C17": ("gen", ["TV_Gen.tla"]), "C18": ("gen", ["TV_Gen.tla"]), "C06": ("gen", ["TV_C06.tla"]), "C09": ("gen", ["TV_C09.tla"]),
    "C10": ("gen", ["TV_Fault.tla"]), "C11": ("validate", ["TV_C11.tla"]), "C12": ("sval", ["TV_C12.tla"]), "C13": ("desc", ["TV_C13.tla"]),
    "C14": ("rval", ["TV_C14.tla"]), "C15": ("fmt", ["TV_C15.tla"]), "C16": ("builder", ["TV_C16.tla"]),
}


def replay(prop, path):
    """Re-run one recorded case through the real crate and let TLC judge it again, printing the verdict lines."""
    rec = json.load(open(path))
    case = rec["case"]
    mode, tvs = REPLAY[prop]
    if prop == "C10" and "kind" not in case:
        tvs = ["TV_Gen.tla"]
    wd = workdir("replay")
    harness_case = dict(case)
    if prop == "C16" and "calls_text" in case:
        harness_case["calls"] = case["calls_text"]
    write_ndjson(os.path.join(wd, "case.ndjson"), [harness_case])
    harness_run(mode, os.path.join(wd, "case.ndjson"), os.path.join(wd, "obs.ndjson"), jobs=1)
    obs = read_ndjson(os.path.join(wd, "obs.ndjson"))
    if prop == "C16":
        for o in obs:
            o["input"] = {k: v for k, v in case.items() if k != "calls_text"}
        write_ndjson(os.path.join(wd, "obs.ndjson"), obs)
    if obs and obs[0].get("crash"):
        print(f"replay: the worker {obs[0]['crash']} on this case")
        print(f"VIOLATION property={prop} replay={path}")
        return 1
    bad = False
    print("recorded:", rec.get("what"))
    for tv in tvs:
        extra = {}
        out = tlc_run(os.path.join(SPEC, "tv", tv), os.path.join(SPEC, "tv", tv.replace(".tla", ".cfg")), os.path.join(wd, tv + ".out"),
                      os.path.join(wd, "md"), workers=1, env={"OBS": os.path.join(wd, "obs.ndjson")}, timeout=600)
        tlc_summary(out)
        for v in tlc_lines(out, "V "):
            mine = [x for x in v.get("failed", []) if x.startswith(prop + ".")]
            print(f"{tv}: failed={v.get('failed')} known={v.get('known')} drift={v.get('drift')}")
            if mine:
                bad = True
    print("observation:", os.path.join(wd, "obs.ndjson"))
    if bad:
        print(f"VIOLATION property={prop} replay={path}")
        return 1
    print("replay: the property's predicates hold on this case now")
    return 0


def selftest():
    """Demonstrates the binding between specification and code: recorded traces are accepted as they are and rejected
    when one recorded field is corrupted or one hook event is removed."""
    harness_build()
    wd = workdir("selftest")
    ok = True

    def tv_one(module, obs):
        write_ndjson(os.path.join(wd, "o.ndjson"), obs)
        out = tlc_run(os.path.join(SPEC, "tv", module), os.path.join(SPEC, "tv", module.replace(".tla", ".cfg")), os.path.join(wd, module + ".out"),
                      os.path.join(wd, "md"), workers=1, env={"OBS": os.path.join(wd, "o.ndjson")}, timeout=600)
        tlc_summary(out)
        return tlc_lines(out, "V ")

    def expect(name, cond):
        nonlocal ok
        print(("ok   " if cond else "FAIL ") + name)
        ok = ok and cond

    # generator + de-duplication traces: the Foo family of the G2p program, registered by the environment model through MC_Gen
    out = tlc_run(os.path.join(SPEC, "mc", "MC_Gen.tla"), os.path.join(SPEC, "mc", "MC_Gen_G1c.cfg"), os.path.join(wd, "mc.out"), os.path.join(wd, "mdm"), workers=4, timeout=600)
    cases = tlc_lines(out, "CASE ")
    c = [x for x in cases if any(e["path"] == ["m", "Q"] for e in x["reg"])][0]
    rec = {"case": 0, "fam": "G1c", "cf": c["cf"], "tog": c["tog"], "model": c["model"], "prog": c["prog"], "sroots": c["sroots"], "perms": [],
           "runs": [{"reg": c["reg"], "settings": c["settings"], "dedup": True, "composites": True, "teq": [], "repeat": 0, "retain": c["retain"]}]}
    write_ndjson(os.path.join(wd, "c.ndjson"), [rec])
    harness_run("gen", os.path.join(wd, "c.ndjson"), os.path.join(wd, "obs.ndjson"), jobs=1)
    o = read_ndjson(os.path.join(wd, "obs.ndjson"))[0]
    v = tv_one("TV_Gen.tla", [o])[0]
    expect("generator trace accepted as recorded", not v["rejected"] and not v["drift"])
    o2 = json.loads(json.dumps(o))
    evs = o2["runs"][0]["gen"]["events"]
    k = [i for i, e in enumerate(evs) if e.get("out") == "keep"][0]
    evs[k]["out"] = "insert"
    v = tv_one("TV_Gen.tla", [o2])[0]
    expect("generator trace with one visit outcome flipped (keep -> insert) is rejected", v["rejected"])
    o3 = json.loads(json.dumps(o))
    del o3["runs"][0]["gen"]["events"][k]
    v = tv_one("TV_Gen.tla", [o3])[0]
    expect("generator trace with one visit event removed (hook disabled) is rejected", v["rejected"])
    o4 = json.loads(json.dumps(o))
    it = o4["runs"][0]["gen"]["module"]["mods"][0]["mods"][0]["items"][0]
    it["fields"][0]["ty"] = {"k": "path", "lead": True, "segs": ["core", "primitive", "i64"], "args": []}
    v = tv_one("TV_Gen.tla", [o4])[0]
    expect("projected module with one field type corrupted: drift reported and Faithful fails", v["drift"] and any(x.startswith("C0") for x in v["failed"]))
    v = tv_one("TV_Dedup.tla", [o])[0]
    expect("de-duplication trace accepted as recorded", not v["rejected"] and not v["drift"])
    o5 = json.loads(json.dumps(o))
    g = [i for i, e in enumerate(o5["runs"][0]["dedup"]["events"]) if e["ev"] == "group"]
    del o5["runs"][0]["dedup"]["events"][g[-1]]
    v = tv_one("TV_Dedup.tla", [o5])[0]
    expect("de-duplication trace with one group event removed is not accepted (rejected or left incomplete: drift)", v["rejected"] or v["drift"])
    # formatter
    write_ndjson(os.path.join(wd, "f.ndjson"), [{"case": 0, "s": [ord(ch) for ch in "a{b:(c,d),e:<f,g>}"]}])
    harness_run("fmt", os.path.join(wd, "f.ndjson"), os.path.join(wd, "fobs.ndjson"), jobs=1)
    fo = read_ndjson(os.path.join(wd, "fobs.ndjson"))[0]
    v = tv_one("TV_C15.tla", [fo])[0]
    expect("formatter trace accepted as recorded", v["ok"] and not v["drift"])
    fo2 = json.loads(json.dumps(fo))
    fo2["events"][3]["indent"] += 1
    v = tv_one("TV_C15.tla", [fo2])[0]
    expect("formatter trace with one recorded indent changed is rejected (drift)", v["drift"])
    fo3 = json.loads(json.dumps(fo))
    fo3["out"] = fo3["out"][:5] + [120] + fo3["out"][5:]
    v = tv_one("TV_C15.tla", [fo3])[0]
    expect("formatter output with one inserted letter violates the strip predicate", not v["ok"])
    return 0 if ok else 2


def selfcheck():
    """setup: parse every specification module with SANY."""
    bad = 0
    for d in ("", "mc", "tv"):
        dd = os.path.join(SPEC, d)
        for f in sorted(os.listdir(dd)):
            if f.endswith(".tla"):
                r = subprocess.run(["java", "-cp", "/opt/veriftools/tla/tla2tools.jar:/opt/veriftools/tla/CommunityModules-deps.jar",
                                    f"-DTLA-Library={SPEC}", "tla2sany.SANY", os.path.join(dd, f)],
                                   stdout=subprocess.PIPE, stderr=subprocess.STDOUT, text=True, cwd=dd)
                ok = r.returncode == 0 and "Semantic errors" not in r.stdout and "Fatal errors" not in r.stdout and "Could not" not in r.stdout
                print(("ok   " if ok else "FAIL ") + os.path.join(d, f))
                if not ok:
                    bad += 1
                    errs = [l for l in r.stdout.splitlines() if 'rror' in l or 'Unknown' in l or 'line ' in l]
                    log("\n".join(errs[:8]))
    return 2 if bad else 0


def main():
    if len(sys.argv) >= 2 and sys.argv[1] == "selfcheck":
        return selfcheck()
    if len(sys.argv) >= 2 and sys.argv[1] == "selftest":
        try:
            return selftest()
        except ToolError as e:
            log("TOOL ERROR:", e)
            return 2
    if len(sys.argv) < 3 or sys.argv[1] not in ("check", "replay"):
        print("usage: verif.py check <property> [--tier quick|thorough] | replay <property> <file>")
        return 2
    prop = sys.argv[2].upper()
    tier = os.environ.get("VERIF_TIER", "quick")
    if "--tier" in sys.argv:
        tier = sys.argv[sys.argv.index("--tier") + 1]
    seed = int(os.environ.get("VERIF_SEED", "1"))
    try:
        os.makedirs(WORK, exist_ok=True)
        harness_build()
        if sys.argv[1] == "replay":
            return replay(prop, sys.argv[3])
        return CHECKS[prop](tier, seed)
    except ToolError as e:
        log("TOOL ERROR:", e)
        return 2


if __name__ == "__main__":
    sys.exit(main())
