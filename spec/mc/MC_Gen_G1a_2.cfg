CONSTANTS
  FAMILY = "G1a_2"
  ALLSETTINGS = FALSE
  WITHPROG = FALSE
SPECIFICATION Spec
INVARIANTS DesignC01 DesignC02 DesignC10 Emit
CHECK_DEADLOCK TRUE
