CONSTANTS
  FAMILY = "G1a_1"
SPECIFICATION Spec
INVARIANTS DesignC13 Emit
CHECK_DEADLOCK FALSE
