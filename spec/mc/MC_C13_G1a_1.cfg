CONSTANTS
  FAMILY = "G1a_1"
  NODES = 2
SPECIFICATION Spec
INVARIANTS DesignC13 Emit
CHECK_DEADLOCK FALSE
