-------------------------------- MODULE MC_C15 --------------------------------
(* Bounded exhaustive model check of the formatter: every string over Alphabet up to    *)
(* length L is an initial state (the look-ahead reads the future, so the whole string   *)
(* is chosen in Init); one step per character.  Terminal states of strings up to LGEN   *)
(* are emitted as replayable cases.                                                     *)
EXTENDS Formatter, TLC, Json

CONSTANTS L, LGEN, Alphabet

VARIABLES input, st
vars == <<input, st>>

Init == /\ input \in UNION {[1..n -> Alphabet] : n \in 0..L}
        /\ st = InitState

Pending(ch) == st.pos < Len(input) /\ input[st.pos + 1] = ch
Brace_      == Pending(LBRACE) /\ st' = Brace(input, st) /\ UNCHANGED input
Close_      == Pending(RBRACE) /\ st' = Close(input, st) /\ UNCHANGED input
Comma_      == Pending(COMMA)  /\ st' = Comma(input, st) /\ UNCHANGED input
OpenParen_  == Pending(LPAR)   /\ st' = Open(input, st, LPAR, RPAR, "tuple") /\ UNCHANGED input
CloseParen_ == Pending(RPAR)   /\ st' = Shut(input, st, RPAR, "tuple") /\ UNCHANGED input
OpenAngle_  == Pending(LT)     /\ st' = Open(input, st, LT, GT, "angle") /\ UNCHANGED input
CloseAngle_ == Pending(GT)     /\ st' = Shut(input, st, GT, "angle") /\ UNCHANGED input
Other_      == /\ st.pos < Len(input)
               /\ input[st.pos + 1] \notin {LBRACE, RBRACE, COMMA, LPAR, RPAR, LT, GT}
               /\ st' = Other(input, st, input[st.pos + 1]) /\ UNCHANGED input
Done == st.pos = Len(input) /\ UNCHANGED vars

Next == Brace_ \/ Close_ \/ Comma_ \/ OpenParen_ \/ CloseParen_ \/ OpenAngle_ \/ CloseAngle_
        \/ Other_ \/ Done

Spec == Init /\ [][Next]_vars /\ WF_vars(Next)

\* C15 at every step: the output so far is the consumed prefix plus whitespace only
StripInv == OnlyInsertsWhitespace(SubSeq(input, 1, st.pos), st.out)
\* C15 at the end: indentation discipline on nested whitespace-free input
IndentInv == st.pos = Len(input) => IndentationDiscipline(input, st.out)
\* totality: the dispatch is never stuck before the end of the input (deadlock check) and
\* the stacks/indent may underflow without disabling anything
TypeOK == /\ st.pos \in 0..Len(input)
          /\ st.indent \in Int
          /\ \A i \in 1..Len(st.tuple) : st.tuple[i] \in {"big", "small"}
          /\ \A i \in 1..Len(st.angle) : st.angle[i] \in {"big", "small"}
\* the state machine and the closed form agree
RunInv == st.pos = Len(input) => st.out = Format(input)
Terminates == <>(st.pos = Len(input))

GenInv == (st.pos = Len(input) /\ Len(input) <= LGEN) => PrintT("CASE " \o ToJson([s |-> input]))
=================================================================================
