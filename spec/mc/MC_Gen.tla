-------------------------------- MODULE MC_Gen --------------------------------
(* Model checking of the generator design over a family of source programs, and generation *)
(* of the replayable cases.  Init chooses a program of the family and a settings record;   *)
(* the registry is what the environment model registers; the generation loop runs one      *)
(* Visit action per registry entry.  At terminal states the abstract predicates are        *)
(* evaluated on the model's own output and the case is printed for replay into the crate.  *)
EXTENDS Source, SettingsPool, Json, SequencesExt

CONSTANTS FAMILY, ALLSETTINGS, WITHPROG

Cases == CASE FAMILY = "G1a_1" -> G1a_1(0) [] FAMILY = "G1a_2" -> G1a_2(0) [] FAMILY = "G1b" -> G1b(0) [] FAMILY = "G1b_s" -> G1bK("struct") [] FAMILY = "G1b_e" -> G1bK("enum") [] FAMILY = "G1c" -> G1c(0) [] FAMILY = "G1d" -> G1d(0) [] FAMILY = "G1e" -> G1e(0) [] FAMILY = "G1f" -> G1f(0) [] FAMILY = "G1g" -> G1g(0)
         [] FAMILY = "G2p_2" -> G2p_2(0) [] FAMILY = "G2p_3" -> G2p_3(0) [] FAMILY = "G2s" -> G2Shapes(0) [] FAMILY = "G2p_3s" -> G2p_3s(0) [] FAMILY = "G7" -> G7(0) [] FAMILY = "G8" -> G8(0) [] FAMILY = "G8b" -> G8b(0) [] FAMILY = "H1" -> H1(0) [] FAMILY = "G2d" -> G2Digits(0)

VARIABLES c, S, reg, gst
vars == <<c, S, reg, gst>>

Init == /\ c \in Cases
        /\ S \in (IF FAMILY = "G7" THEN SubSettings ELSE IF FAMILY = "G8" THEN DeriveSettings ELSE IF FAMILY = "G8b" THEN CompactAsSettings ELSE IF ALLSETTINGS THEN SettingsPool ELSE {Base})
        /\ reg = RegOf(c)
        /\ gst = GenStart(reg, GenInit)

Running == gst.res = "running" /\ gst.i <= Len(reg)
Visit(out) == /\ Running
              /\ LET vo == VisitOutcome(reg, S, gst) IN vo.out = out /\ gst' = VisitApply(reg, gst, vo)
              /\ UNCHANGED <<c, S, reg>>
VisitSubstituted == Visit("substituted")
VisitPrelude == Visit("prelude")
VisitBuiltin == Visit("builtin")
VisitInsert == Visit("insert")
VisitKeep == Visit("keep")
VisitDuplicate == Visit("duplicate")
VisitError == Visit("error")
Finish == gst.res = "running" /\ gst.i > Len(reg) /\ gst' = GenFinish(reg, gst) /\ UNCHANGED <<c, S, reg>>
Done == gst.res # "running" /\ UNCHANGED vars
Next == VisitSubstituted \/ VisitPrelude \/ VisitBuiltin \/ VisitInsert \/ VisitKeep \/ VisitDuplicate \/ VisitError \/ Finish \/ Done
Spec == Init /\ [][Next]_vars

(* the model's output in projected form *)
RECURSIVE BuildMod(_, _, _, _)
BuildMod(name, prefix, items, rootname) ==
  LET here == SelectSeq(items, LAMBDA x : Namespace(x.path) = prefix)
      deeper == {k \in DOMAIN items : Len(Namespace(items[k].path)) > Len(prefix)
                                      /\ SubSeq(items[k].path, 1, Len(prefix)) = prefix}
      subnames == SetToSeq({items[k].path[Len(prefix) + 1] : k \in deeper})
  IN [name |-> name, vis |-> TRUE, uses |-> <<<<"super", rootname>>>>,
      mods |-> [i \in DOMAIN subnames |-> BuildMod(subnames[i], Append(prefix, subnames[i]), items, rootname)],
      items |-> [i \in DOMAIN here |-> here[i].item], others |-> <<>>]
ModelFile == [name |-> "", vis |-> TRUE, uses |-> <<>>, mods |-> <<BuildMod(S.root, <<>>, gst.items, S.root)>>, items |-> <<>>, others |-> <<>>]
ModelRoot == RootOf(ModelFile)

Terminal == gst.res # "running"
CF == c.fam # "H1" /\ CoincidenceFree(ProgOf(c), c.roots)

\* the same predicates TV evaluates on the implementation, here on the model
M_Unfaithful == {id \in Ids(reg) : LET r == ResolveTypePath(reg, S, id) IN r.err = "" /\ ~FaithfulTop(reg, S, ModelRoot, id, r.ty)}
M_PathErrors == {id \in Ids(reg) : ResolveTypePath(reg, S, id).err # ""}
M_C01 == gst.res = "ok" => (M_Unfaithful = {} /\ M_PathErrors = {})
M_C02 == gst.res = "ok" => (RustWfFailed(S, ModelFile) = {} /\ CompactAsOKSet(S, ModelRoot))
M_C10 == gst.res \in {"ok", "DuplicateTypePath"}

\* refinement of the shape comparison: equal verdict => the candidate items coincide (known design findings otherwise)
M_TEqSound == \A p \in UserPaths(reg) : \A x, y \in IdsOfPath(reg, p) : TypesEqual(reg, x, y) => CoRepItems(reg, S, x, y)
M_C03 == gst.res = "ok" => M_Unfaithful = {}

\* C05 on the model: every definition's item is the expected item derived from the source program
Tog == CF /\ OneDefPerPath(ProgOf(c), c.roots)
M_C05 == (gst.res = "ok" /\ Tog) =>
           \A d \in {x \in C05Defs(ProgOf(c), c.roots) : SubFor(S, x.mod \o <<x.ident>>) = 0} :
             LET it == FindItem(ModelRoot, <<S.root>> \o d.mod \o <<d.ident>>) IN
             it.kind # "none" /\ ItemAgrees(ExpectedItem(ProgOf(c), S, d), it)
DesignC05 == Terminal => M_C05

\* C07 on the model: substituted paths are neither defined nor referenced; occurrences are checked inside Faithful (SubstMatch)
M_AllTys == FlattenSeq([k \in DOMAIN gst.items |-> ItemFieldTys(gst.items[k].item)])
M_C07 == gst.res = "ok" =>
           \A r \in DOMAIN S.subs :
             LET src == <<S.root>> \o S.subs[r].src.segs IN
             /\ FindItem(ModelRoot, src).kind = "none"
             /\ \A i \in DOMAIN M_AllTys : ~RefersTo(M_AllTys[i], src)
             /\ \A id \in Ids(reg) : LET pr == ResolveTypePath(reg, S, id) IN pr.err = "" => ~RefersTo(pr.ty, src)
DesignC07 == Terminal => (M_C07 /\ ((CF /\ S.codec) => M_C01))

\* C08 on the model: Must <= derives <= May for every generated item (see Props in TV_Gen for the same predicate on the implementation)
M_C08 == gst.res = "ok" => \A k \in DOMAIN gst.items : C08_ItemOK(reg, S, ModelRoot, gst.items[k].path, gst.items[k].item.derives, gst.items[k].item.attrs, gst.items[k].item)
DesignC08 == Terminal => M_C08

\* design-level invariants: C01 for coincidence-free programs, C02/C10 for all
\* (wire fidelity is stated for settings with codec attributes on: without them compact fields carry no marker)
DesignC01 == (Terminal /\ CF /\ S.codec) => M_C01
DesignC02 == Terminal => M_C02
DesignC10 == Terminal => M_C10

\* C17: permutations of the registry (reverse order, rotation) chosen here and replayed into the crate
Rev == [i \in Ids(reg) |-> Len(reg) - 1 - i]
Rot == [i \in Ids(reg) |-> (i + 1) % Len(reg)]
ItemMap(g) == {<<g.items[k].path, g.items[k].item>> : k \in DOMAIN g.items}
M_C17 == \A pi \in {Rev, Rot} : LET g2 == Generate(Permute(reg, pi), S) IN g2.res = gst.res /\ (gst.res = "ok" => ItemMap(g2) = ItemMap(gst))
DesignC17 == (Terminal /\ Tog) => M_C17
LastUserId == LET u == {i \in Ids(reg) : IsUserPath(Ty(reg, i).path)} IN IF u = {} THEN 0 ELSE CHOOSE i \in u : \A j \in u : j <= i

Emit == Terminal =>
  PrintT("CASE " \o ToJson([fam |-> c.fam, cf |-> CF, tog |-> Tog, sroots |-> IF WITHPROG THEN c.roots ELSE <<>>, reg |-> reg, settings |-> S, roots |-> IF c.fam = "H1" THEN <<0>> ELSE Register(ProgOf(c), c.roots).roots,
                            prog |-> IF WITHPROG THEN ProgOf(c) ELSE [defs |-> <<>>, cfgs |-> <<>>],
                            perms |-> <<[pi |-> [i \in 1..Len(reg) |-> Rev[i - 1]], reg |-> Permute(reg, Rev)],
                                        [pi |-> [i \in 1..Len(reg) |-> Rot[i - 1]], reg |-> Permute(reg, Rot)]>>,
                            retain |-> <<LastUserId>>,
                            model |-> [res |-> gst.res, c01 |-> (S.codec => M_C01), c02 |-> M_C02, c03 |-> M_C03, c05 |-> M_C05, c17 |-> (Tog => M_C17), teq_sound |-> M_TEqSound]]))
=================================================================================
