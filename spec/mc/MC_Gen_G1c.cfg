CONSTANTS
  FAMILY = "G1c"
  ALLSETTINGS = TRUE
  WITHPROG = FALSE
SPECIFICATION Spec
INVARIANTS DesignC01 DesignC02 DesignC10 Emit
CHECK_DEADLOCK TRUE
