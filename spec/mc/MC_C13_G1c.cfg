CONSTANTS
  FAMILY = "G1c"
  NODES = 2
SPECIFICATION Spec
INVARIANTS DesignC13 Emit
CHECK_DEADLOCK FALSE
