CONSTANTS
  FAMILY = "G1c"
SPECIFICATION Spec
INVARIANTS DesignC13 Emit
CHECK_DEADLOCK FALSE
