-------------------------------- MODULE MC_C11 --------------------------------
(* Settings validation and the similar-path query.  Registries with paths that share final    *)
(* identifiers x settings with up to 3 entries in specific / recursive / substitute position  *)
(* over known and unknown paths.  The validation loop is a state machine whose map iteration   *)
(* order is a nondeterministic choice: every order must produce - as sets - the reference      *)
(* result defined by comprehension (sound, complete, each unknown path once, merged).          *)
EXTENDS SettingsBuilder, Families, Json

Regs == {Register(Program(<<Struct("Foo", <<"a">>, <<>>, <<SField("x", u8), SField("o", P_Opt(u8))>>), Struct("Foo", <<"b">>, <<>>, <<SField("y", A0("Bar"))>>),
                            Struct("Bar", <<"a">>, <<>>, <<>>)>>, <<>>), <<P_Adt("Foo", <<>>)>>).reg,
         Register(G2Prog, <<A0("FooC8"), A0("FooC16"), A0("Foo1")>>).reg}
\* NOTE: DefOf picks the first definition called Foo; the second registry has two types under m::Foo

P(segs) == PT(FALSE, segs)
Entries == <<
  DCall("for_d", P(<<"a", "Foo">>), <<"::d::K">>, FALSE), DCall("for_d", P(<<"m", "Foo">>), <<"::d::K">>, TRUE),
  DCall("for_d", P(<<"u", "One">>), <<"::d::U1">>, FALSE), DCall("for_d", P(<<"u", "One">>), <<"::d::U2">>, TRUE),
  DCall("for_a", P(<<"u", "One">>), <<"#[u1]">>, FALSE), DCall("for_a", P(<<"u", "Two">>), <<"#[u2]">>, TRUE),
  DCall("for_d", P(<<"u", "Two">>), <<"::d::U1", "::d::U3">>, FALSE), DCall("for_a", P(<<"Foo">>), <<"#[f]">>, FALSE),
  DCall("all_d", P(<<"x">>), <<"::d::G">>, FALSE) >>
SubPool == <<Rule(TPath(FALSE, <<"u", "Three">>, <<>>), Ext("Y", <<>>)), Rule(TPath(FALSE, <<"a", "Foo">>, <<>>), Ext("Z", <<>>)),
             Rule(TPath(FALSE, <<"m", "Foo1">>, <<Id("T")>>), Ext("W", <<Id("T")>>)), Rule(TPath(FALSE, <<"Option">>, <<>>), Ext("Opt", <<>>)), Rule(TPath(FALSE, <<"Knwon">>, <<>>), Ext("Typo", <<>>))>>
Queries == <<P(<<"x", "Foo">>), P(<<"Foo">>), P(<<"a", "Bar">>), P(<<"q", "Baz">>), P(<<"Option">>), P(<<"m", "Foo1">>)>>

Selections == {<<>>} \cup {<<i>> : i \in DOMAIN Entries} \cup {<<i, j>> : i \in DOMAIN Entries, j \in DOMAIN Entries}
              \cup {<<i, j, k>> : i \in {3, 4, 5}, j \in DOMAIN Entries, k \in {6, 7, 1}}
SubSelections == {<<>>, <<1>>, <<2>>, <<1, 3>>, <<4, 1>>, <<5>>, <<5, 2, 1>>}

VARIABLES reg, S, todo, vst
vars == <<reg, S, todo, vst>>
Init == /\ reg \in Regs
        /\ \E sel \in Selections, ss \in SubSelections :
             S = [Base EXCEPT !.derive_calls = [i \in DOMAIN sel |-> Entries[sel[i]]], !.subs = [i \in DOMAIN ss |-> SubPool[ss[i]]]]
        /\ todo = MapEntries(S)
        /\ vst = [derives |-> <<>>, attrs |-> <<>>]
\* the specific map is iterated before the recursive map, each in arbitrary order
VisitEntry == \E e \in todo : /\ (e[2] => \A f \in todo : f[2])
                             /\ vst' = VStep(reg, S, vst, e) /\ todo' = todo \ {e} /\ UNCHANGED <<reg, S>>
Done == todo = {} /\ UNCHANGED vars
Next == VisitEntry \/ Done
Spec == Init /\ [][Next]_vars

AsSet(list) == {<<list[i][1], list[i][2]>> : i \in DOMAIN list}
EachOnce(list) == \A i, j \in DOMAIN list : i # j => list[i][1] # list[j][1]
\* last rule per source path is what the substitutes map holds
RulesMap == RulesOfHistory([i \in DOMAIN S.subs |-> SubCall("insert", S.subs[i].src, S.subs[i].dst, "ok", "ok")], 1, <<>>)
SoundAndComplete == todo = {} =>
  /\ AsSet(vst.derives) = RefDerivesUnknown(reg, S) /\ AsSet(vst.attrs) = RefAttrsUnknown(reg, S)
  /\ EachOnce(vst.derives) /\ EachOnce(vst.attrs)
  /\ (Len(vst.derives) = 0 /\ Len(vst.attrs) = 0 /\ RefSubsUnknown(reg, RulesMap) = {}) <=> RefValid(reg, S, RulesMap)

Emit == todo = {} => PrintT("CASE " \o ToJson([reg |-> reg, settings |-> <<S>>, queries |-> Queries]))
=================================================================================
