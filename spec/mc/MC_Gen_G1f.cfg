CONSTANTS
  FAMILY = "G1f"
  ALLSETTINGS = FALSE
  WITHPROG = TRUE
SPECIFICATION Spec
INVARIANTS DesignC01 DesignC02 DesignC05 DesignC10 DesignC17 Emit
CHECK_DEADLOCK TRUE
