CONSTANTS
  MAXLEN = 3
SPECIFICATION Spec
INVARIANTS DerivesAreUnions RulesAreLastInsert RejectedChangesNothing OneRulePerPath DocumentedKinds Emit
CHECK_DEADLOCK TRUE
