-------------------------------- MODULE MC_C12 --------------------------------
(* Example values at design level: over every (registry, id) of the families, generation can   *)
(* fail only where the specification says so - CanError - and that never happens when the       *)
(* types reachable from the id contain no cycle and no empty enum; for scale values and, with  *)
(* the direct recursion through sequences and arrays, for Rust values.                          *)
EXTENDS Values, Families, Json

CONSTANT FAMILY
EmptyEnumProg == Program(<<Enum("Never", Mod, <<>>, <<>>), Struct("HasNever", Mod, <<>>, <<SField("e", P_Opt(A0("Never"))), SField("n", u8)>>),
                           Struct("DeepNever", Mod, <<>>, <<SField("v", P_Vec(P_Tup(<<u8, A0("HasNever")>>)))>>),
                           Struct("Big", Mod, <<>>, <<SField("a", P_Prim("u256")), SField("b", P_Prim("i256")), SField("c", P_Arr(u8, 0)), SField("d", P_Arr(A0("Never"), 0))>>)>>, <<>>)
\* a recursive enum that can finish (Leaf) and is met several times under one root; a recursive enum under sequences and arrays
ForestProg == Program(<<Enum("Tree", Mod, <<>>, <<Variant("Leaf", 0, <<>>), Variant("Node", 1, <<SField("", P_Box(A0("Tree"))), SField("", P_Box(A0("Tree"))), SField("", P_Box(A0("Tree"))),
                                                                                             SField("", P_Box(A0("Tree"))), SField("", P_Box(A0("Tree"))), SField("", P_Box(A0("Tree")))>>)>>),
                        Struct("Forest", Mod, <<>>, <<SField("a", A0("Tree")), SField("b", A0("Tree")), SField("c", A0("Tree")), SField("d", A0("Tree")), SField("e", P_Vec(A0("Tree"))),
                                                      SField("f", P_Arr(A0("Tree"), 3)), SField("g", P_Opt(A0("Tree")))>>),
                        Struct("Nest", Mod, <<>>, <<SField("a", P_Vec(P_Compact(u16))), SField("b", P_Opt(P_Compact(u64))), SField("c", P_Tup(<<P_Compact(u8), P_Adt("NonCompact", <<u8>>)>>)),
                                                    SField("d", P_Adt("NonCompact", <<bool>>)), SField("e", P_Compact(u32)), CField("f", u32)>>),
                        Struct("NonCompact", Mod, <<Param("T")>>, <<SField("", T)>>),
                        Struct("Long", Mod, <<>>, <<SField("bloom", P_Arr(u8, 300)), SField("w", P_Arr(u32, 257)), SField("s", P_Arr(bool, 33))>>)>>, <<>>)
\* arrays whose elements are tuples / nested arrays with and without non-Copy members (the short form [x; n] needs a Copy element)
ArrProg == Program(<<Struct("Arrs", Mod, <<>>, <<SField("a", P_Arr(P_Tup(<<str, u8>>), 3)), SField("b", P_Arr(P_Tup(<<u8, str>>), 2)), SField("c", P_Arr(P_Arr(P_Tup(<<bool, str, u8>>), 2), 2)),
                                                 SField("d", P_Arr(P_Tup(<<u8, u16>>), 3)), SField("e", P_Arr(P_Vec(u8), 2)), SField("f", P_Arr(P_Tup(<<u8, P_Tup(<<str>>)>>), 2)),
                                                 SField("g", P_Arr(P_Tup(<<P_Vec(u8), u8, bool>>), 2)), SField("h", P_Arr(P_Arr(u8, 2), 3))>>)>>, <<>>)
Extra == {[fam |-> "G12", prog |-> ArrProg, roots |-> <<A0("Arrs")>>], [fam |-> "G12", prog |-> EmptyEnumProg, roots |-> <<A0("DeepNever"), A0("Big")>>],
          [fam |-> "G12", prog |-> ForestProg, roots |-> <<A0("Forest"), A0("Nest"), A0("Long")>>]}
Cases == CASE FAMILY = "G1a_1" -> G1a_1(0) [] FAMILY = "G1c" -> G1c(0) \cup Extra [] FAMILY = "G8" -> G8(0) \cup G8b(0) [] FAMILY = "G13" -> G13(3)

VARIABLES c, id
Init == c \in Cases /\ id \in Ids(RegOf(c))
Next == UNCHANGED <<c, id>>
Spec == Init /\ [][Next]_<<c, id>>
Reg == RegOf(c)
DesignC12 == (Acyclic(Reg, id) /\ ~HasEmptyEnum(Reg, id)) => (~CanError(Reg, id, FALSE) /\ ~CanError(Reg, id, TRUE))
\* cycles are always cut: a type on a cycle can fail (never unbounded recursion - CanErr terminates by the marker)
CyclesAreCut == OnCycle(Reg, id) => CanError(Reg, id, FALSE)
Emit == id = 0 => PrintT("CASE " \o ToJson([fam |-> c.fam, reg |-> Reg]))
=================================================================================
