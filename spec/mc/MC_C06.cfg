SPECIFICATION Spec
INVARIANTS Confluent OrderIndependent Emit
CHECK_DEADLOCK TRUE
