-------------------------------- MODULE MC_C06 --------------------------------
(* Determinism at design level.  (a) Path de-duplication renames the path groups in arbitrary    *)
(* (HashMap) order: the Rename action may pick any pending path, and every order must end in the  *)
(* registry the deterministic run produces (confluence).  (b) Settings are sets: the cases carry   *)
(* the same registrations in several orders (chosen here) and the model output - whose derive and  *)
(* attribute lists are sets - must coincide; the emitted order (sorted by token string) and the    *)
(* hash-seed independence are judged on the implementation by TV_C06.                              *)
EXTENDS Dedup, Families, SettingsPool, Json

\* two same-path families (Foo and Goo) so that more than one path group needs renaming
GooDefs == <<Versioned(Struct("GooA", Mod, <<>>, <<SField("g", u8)>>), "Goo"), Versioned(Struct("GooB", Mod, <<>>, <<SField("g", str)>>), "Goo"),
             Versioned(Struct("HooA", Mod \o <<"h">>, <<>>, <<SField("", u8)>>), "Hoo"), Versioned(Struct("HooB", Mod \o <<"h">>, <<>>, <<SField("", u16), SField("", u8)>>), "Hoo")>>
TwoFamProg == Program(G2Defs \o GooDefs, <<CfgC1, CfgC2>>)
RootSets == {<<A0("FooC8"), A0("GooA"), A0("FooC16"), A0("GooB")>>, <<A0("GooB"), A0("HooA"), A0("FooC16"), A0("HooB"), A0("GooA"), A0("FooC8"), P_Adt("FooG", <<u8>>)>>,
             <<A0("HooA"), A0("HooB"), A0("FooE"), A0("FooE2"), A0("Foo1")>>}
RawRegs == {Register(TwoFamProg, r).reg : r \in RootSets}
Regs == RawRegs \cup {DedupRun(r).reg : r \in RawRegs} \cup {Register(G8Prog, r).reg : r \in G8Roots}
        \cup {Register(ProgOf(x), x.roots).reg : x \in G1c(0)}

VARIABLES reg0, dst
vars == <<reg0, dst>>
RECURSIVE GroupAll(_)
GroupAll(st) == IF st.res = "grouping" THEN (IF st.i > Len(st.reg) THEN GroupingDone(st) ELSE GroupAll(GroupStep(st).st)) ELSE st
Init == reg0 \in Regs /\ dst = GroupAll(DInit(reg0))
RenameAny == /\ dst.res = "renaming" /\ dst.pending # {}
             /\ \E p \in dst.pending : dst' = RenamePath(dst, p)
             /\ UNCHANGED reg0
FinishRenaming == dst.res = "renaming" /\ dst.pending = {} /\ dst' = RenamingDone(dst) /\ UNCHANGED reg0
Done == dst.res \notin {"renaming"} /\ UNCHANGED vars
Next == RenameAny \/ FinishRenaming \/ Done
Spec == Init /\ [][Next]_vars

Confluent == dst.res = "ok" => dst.reg = DedupRun(reg0).reg

\* registration orders of the same set of calls / rules
Perms(n) == <<[i \in 1..n |-> i], [i \in 1..n |-> n + 1 - i], [i \in 1..n |-> (i % n) + 1], [i \in 1..n |-> IF i % 2 = 1 /\ i < n THEN i + 1 ELSE IF i % 2 = 0 THEN i - 1 ELSE i]>>
Reorder(s, pi) == [i \in DOMAIN s |-> s[pi[i]]]
\* m::R is registered specifically (pool entry 11) and recursively (entries 3, 12): the specific registration comes first here,
\* so that it precedes the recursive ones in two of the four orders and follows them in the others
CallsFor8 == <<DerivePool[11]>> \o SelectSeq(DerivePool, LAMBDA x : x # DerivePool[11])
CallsForFoo == <<DCall("all_d", DPath(<<"x">>), <<"::z::Last", "::a::First", "Clone", "::m::Mid", "Debug", "::core::fmt::Debug", "::a::Clone", "::codec_a::Encode", "::codec_b::Encode">>, FALSE), DCall("all_a", DPath(<<"x">>), <<"#[zz]", "#[aa]", "#[mm(x=1)]", "#[codec(dumb_trait_bound)]", "#[codec(crate=::x::codec)]", "#[codec(mel_bound())]", "#[codec(a)]">>, FALSE),
                 DCall("for_d", DPath(<<"m", "Foo">>), <<"::d::F1", "::d::F0">>, TRUE), DCall("for_d", DPath(<<"m", "Goo">>), <<"::d::G1">>, FALSE),
                 DCall("for_a", DPath(<<"m", "h", "Hoo">>), <<"#[h1]", "#[h0]">>, TRUE), DCall("for_d", DPath(<<"m", "Foo">>), <<"::d::F2", "::e::F2", "F2">>, FALSE),
                 DCall("for_d", DPath(<<"m", "Foo1">>), <<"::d::F1", "::d::F0", "::d::E">>, TRUE), DCall("for_a", DPath(<<"m", "Goo2">>), <<"#[g2]", "#[g1]">>, FALSE),
                 DCall("for_d", DPath(<<"m", "L">>), <<"::d::L2", "::d::L1">>, TRUE), DCall("for_a", DPath(<<"m", "h", "Hoo1">>), <<"#[k]">>, TRUE),
                 \* paths that occur in no registry, some registered both specifically and recursively: the validation error has one entry per path
                 DCall("for_d", DPath(<<"zz", "Gamma">>), <<"Clone">>, FALSE), DCall("for_d", DPath(<<"aa", "Alpha">>), <<"::d::A1">>, FALSE),
                 DCall("for_d", DPath(<<"zz", "Gamma">>), <<"Debug">>, TRUE), DCall("for_d", DPath(<<"mm", "Beta">>), <<"::d::B1">>, FALSE),
                 DCall("for_a", DPath(<<"aa", "Alpha">>), <<"#[a1]">>, TRUE), DCall("for_d", DPath(<<"kk", "Delta">>), <<"::d::D1">>, TRUE),
                 DCall("for_d", DPath(<<"kk", "Delta">>), <<"::d::D2">>, FALSE), DCall("for_d", DPath(<<"bb", "Eps">>), <<"::d::E1">>, FALSE),
                 DCall("for_a", DPath(<<"aa", "Alpha">>), <<"#[a2]">>, FALSE), DCall("for_d", DPath(<<"yy", "Zeta">>), <<"::d::Z1">>, TRUE)>>
SubsFor(reg) == IF \E i \in DOMAIN reg : reg[i].path = <<"m", "R">> THEN <<LsbRule, MapRule>> ELSE <<Rule(TPath(FALSE, <<"m", "Foo1">>, <<>>), Ext("F1", <<>>)), Rule(TPath(FALSE, <<"m", "Bar">>, <<>>), Ext("B", <<>>))>>
CallsOf(reg) == IF \E i \in DOMAIN reg : reg[i].path = <<"m", "R">> THEN CallsFor8 ELSE CallsForFoo
SettingsOrders(reg) == [k \in 1..4 |-> [DeriveBase EXCEPT !.derive_calls = Reorder(CallsOf(reg), Perms(Len(CallsOf(reg)))[k]),
                                                          !.subs = IF k % 2 = 0 THEN Reorder(SubsFor(reg), [i \in 1..2 |-> 3 - i]) ELSE SubsFor(reg)]]
\* the model's output does not depend on the registration order
OrderIndependent == dst.res = "grouping" \/ \A k \in 2..4 : LET g1 == Generate(reg0, SettingsOrders(reg0)[1])  gk == Generate(reg0, SettingsOrders(reg0)[k]) IN g1.res = gk.res /\ g1.items = gk.items

Emit == dst.res \in {"ok", "RegistryTypeIdsInvalid"} => PrintT("CASE " \o ToJson([reg |-> reg0, settings |-> SettingsOrders(reg0)]))
=================================================================================
