CONSTANTS
  FAMILY = "H1"
  ALLSETTINGS = TRUE
  WITHPROG = FALSE
SPECIFICATION Spec
INVARIANTS DesignC02 DesignC10 Emit
CHECK_DEADLOCK TRUE
