CONSTANTS
  FAMILY = "G2d"
  ALLSETTINGS = FALSE
  WITHPROG = FALSE
SPECIFICATION Spec
INVARIANTS DesignC10 Emit
CHECK_DEADLOCK TRUE
