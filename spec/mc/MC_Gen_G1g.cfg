CONSTANTS
  FAMILY = "G1g"
  ALLSETTINGS = FALSE
  WITHPROG = TRUE
SPECIFICATION Spec
INVARIANTS DesignC01 DesignC02 DesignC05 DesignC10 DesignC17 Emit
CHECK_DEADLOCK TRUE
