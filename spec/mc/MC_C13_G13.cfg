CONSTANTS
  FAMILY = "G13"
  NODES = 3
SPECIFICATION Spec
INVARIANTS DesignC13 Emit
CHECK_DEADLOCK FALSE
