CONSTANTS
  FAMILY = "G8"
SPECIFICATION Spec
INVARIANTS DesignC12 CyclesAreCut Emit
CHECK_DEADLOCK FALSE
