CONSTANTS
  FAMILY = "G1b"
  ALLSETTINGS = FALSE
  WITHPROG = FALSE
SPECIFICATION Spec
INVARIANTS DesignC01 DesignC02 DesignC10 Emit
CHECK_DEADLOCK TRUE
