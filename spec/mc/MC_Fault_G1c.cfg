CONSTANTS
  BASES = "G1c"
SPECIFICATION Spec
INVARIANTS DesignC10 Emit
CHECK_DEADLOCK TRUE
