CONSTANTS
  FAMILY = "G2s"
  ALLSETTINGS = FALSE
  WITHPROG = FALSE
SPECIFICATION Spec
INVARIANTS DesignC10 Emit
CHECK_DEADLOCK TRUE
