CONSTANTS
  FAMILY = "G1a_1"
  ALLSETTINGS = TRUE
  WITHPROG = FALSE
SPECIFICATION Spec
INVARIANTS DesignC01 DesignC02 DesignC05 DesignC10 DesignC17 Emit
CHECK_DEADLOCK TRUE
