CONSTANTS
  FAMILY = "G2p_2"
SPECIFICATION Spec
INVARIANTS DesignC13 Emit
CHECK_DEADLOCK FALSE
