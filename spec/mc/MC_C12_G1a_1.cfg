CONSTANTS
  FAMILY = "G1a_1"
SPECIFICATION Spec
INVARIANTS DesignC12 CyclesAreCut Emit
CHECK_DEADLOCK FALSE
