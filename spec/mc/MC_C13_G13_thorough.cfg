CONSTANTS
  FAMILY = "G13"
  NODES = 4
SPECIFICATION Spec
INVARIANTS DesignC13 Emit
CHECK_DEADLOCK FALSE
