-------------------------------- MODULE MC_C16 --------------------------------
(* All histories of the public builder calls up to MAXLEN over a 19-call alphabet (valid and   *)
(* invalid arguments): the accumulated state must mean what the history means - derives as a   *)
(* union irrespective of order and repetition, the rule of a source path = the last accepted   *)
(* insertion (insert-if-absent never replaces), rejected calls change nothing.                 *)
EXTENDS SettingsBuilder, Families, Json

CONSTANT MAXLEN

PA == PT(FALSE, <<"probe", "A">>)   PB == PT(FALSE, <<"probe", "B">>)
GSrc(args) == TPath(FALSE, <<"probe", "G">>, args)
Alphabet == {
  DeriveCall("all_d", NoTree, <<"::d::A">>, FALSE), DeriveCall("all_d", NoTree, <<"::d::B", "::d::A">>, FALSE), DeriveCall("all_a", NoTree, <<"#[a0]">>, FALSE),
  DeriveCall("for_d", PA, <<"::d::C">>, FALSE), DeriveCall("for_d", PA, <<"::d::R">>, TRUE), DeriveCall("for_a", PB, <<"#[b1]">>, FALSE),
  DeriveCall("for_a", PA, <<"#[ra]">>, TRUE), DeriveCall("for_d", PB, <<"::d::RB", "::d::C">>, TRUE),
  SubCall("insert", GSrc(<<Id("T"), Id("U")>>), Ext("G2", <<Id("U"), Id("T")>>), "ok", "ok"),
  SubCall("insert", GSrc(<<>>), Ext("G3", <<>>), "ok", "ok"),
  SubCall("insert_if_not_exists", GSrc(<<Id("T"), Id("U")>>), Ext("G4", <<Id("T")>>), "ok", "ok"),
  SubCall("insert", GSrc(<<>>), TPath(FALSE, <<"ext", "Rel">>, <<>>), "ok", "relative"),
  SubCall("insert", GSrc(<<Id("T"), Id("U")>>), Ext("G2", <<>>), "paren", "ok"),
  SubCall("insert", GSrc(<<TPath(FALSE, <<"Vec">>, <<Id("T")>>)>>), Ext("G2", <<Id("T")>>), "nonident", "ok"),
  SubCall("insert", GSrc(<<Id("T")>>), Ext("G2", <<[k |-> "tup", elems |-> <<Id("T"), Id("T")>>]>>), "ok", "nonpath"),
  SubCall("insert_if_not_exists", GSrc(<<Id("T")>>), TPath(FALSE, <<"crate", "local", "G6">>, <<Id("T")>>), "ok", "ok"),
  \* malformed targets for a source that declares no generics
  SubCall("insert", GSrc(<<>>), Ext("G8", <<[k |-> "tup", elems |-> <<Id("T"), Id("T")>>]>>), "ok", "nonpath"),
  SubCall("insert", GSrc(<<>>), Ext("G9", <<Id("T")>>), "ok", "paren"),
  SubCall("insert_if_not_exists", GSrc(<<TPath(FALSE, <<"Vec">>, <<Id("A")>>)>>), Ext("G7", <<Id("A")>>), "nonident", "ok"),
  ExtendCall(<<Elem(PB, Ext("B2", <<>>), "ok", "ok"), Elem(GSrc(<<Id("T"), Id("U")>>), Ext("G5", <<Id("T"), Id("U")>>), "ok", "ok")>>),
  ExtendCall(<<Elem(PB, Ext("B3", <<>>), "ok", "ok"), Elem(GSrc(<<Id("T")>>), Ext("X", <<>>), "paren", "ok")>>) }

ProbeProg == Program(<<Struct("A", <<"probe">>, <<>>, <<SField("b", A0("B")), SField("g", P_Adt("G", <<u8, bool>>)), CField("c", A0("CW")), SField("t", P_Tup(<<u8, P_Arr(A0("TW"), 2)>>))>>),
                       Struct("CW", <<"probe">>, <<>>, <<SField("", u32)>>), Struct("TW", <<"probe">>, <<>>, <<SField("w", bool)>>),
                       Struct("B", <<"probe">>, <<>>, <<SField("x", u8)>>),
                       Struct("G", <<"probe">>, <<Param("T"), Param("U")>>, <<SField("t", T), SField("u", U)>>)>>, <<>>)
ProbeReg == Register(ProbeProg, <<A0("A")>>).reg

VARIABLES st, hist, prev, lastres
vars == <<st, hist, prev, lastres>>
Init == st = BInit /\ hist = <<>> /\ prev = BInit /\ lastres = "ok"
Do(call) == /\ Len(hist) < MAXLEN
            /\ LET r == Apply(st, call) IN st' = r.st /\ lastres' = r.res
            /\ prev' = st /\ hist' = Append(hist, call)
AddDerivesForAll == \E cl \in {x \in Alphabet : x.op = "all_d"} : Do(cl)
AddAttributesForAll == \E cl \in {x \in Alphabet : x.op = "all_a"} : Do(cl)
AddDerivesFor == \E cl \in {x \in Alphabet : x.op = "for_d"} : Do(cl)
AddAttributesFor == \E cl \in {x \in Alphabet : x.op = "for_a"} : Do(cl)
Insert == \E cl \in {x \in Alphabet : x.op = "insert"} : Do(cl)
InsertIfNotExists == \E cl \in {x \in Alphabet : x.op = "insert_if_not_exists"} : Do(cl)
ExtendSubstitutes == \E cl \in {x \in Alphabet : x.op = "extend"} : Do(cl)
Done == Len(hist) = MAXLEN /\ UNCHANGED vars
Next == AddDerivesForAll \/ AddAttributesForAll \/ AddDerivesFor \/ AddAttributesFor \/ Insert \/ InsertIfNotExists \/ ExtendSubstitutes \/ Done
Spec == Init /\ [][Next]_vars

S == SettingsOf(Base, st)
\* derives are the union of what was registered globally, for the path, and recursively for an ancestor - by comprehension over the history
ProbePaths == {<<"probe", "A">>, <<"probe", "B">>, <<"probe", "G">>, <<"probe", "CW">>, <<"probe", "TW">>}
Ancestors(path) == {r \in ProbePaths : \E ir \in IdsOfPath(ProbeReg, r) : \E ip \in IdsOfPath(ProbeReg, path) : ip \in Reach(ProbeReg, ir)}
ExpectD(path) == DerivesOfHistory(hist, "all_d", "", FALSE) \cup DerivesOfHistory(hist, "for_d", PathStr(path), FALSE)
                 \cup UNION {DerivesOfHistory(hist, "for_d", PathStr(r), TRUE) : r \in Ancestors(path)}
ExpectA(path) == DerivesOfHistory(hist, "all_a", "", FALSE) \cup DerivesOfHistory(hist, "for_a", PathStr(path), FALSE)
                 \cup UNION {DerivesOfHistory(hist, "for_a", PathStr(r), TRUE) : r \in Ancestors(path)}
DerivesAreUnions == \A p \in ProbePaths :
                      FlatDerives(ProbeReg, S, p) = ExpectD(p) /\ FlatAttrs(ProbeReg, S, p) = ExpectA(p)
NoExtend == \A i \in DOMAIN hist : hist[i].op # "extend"
RulesAreLastInsert == NoExtend => st.rules = RulesOfHistory(hist, 1, <<>>)
RejectedChangesNothing == (lastres # "ok" /\ Len(hist) > 0 /\ hist[Len(hist)].op # "extend") => st = prev
\* extend: the rules afterwards are either unchanged or the valid prefix applied (may-clause); here: exactly the prefix, as coded
OneRulePerPath == \A i, j \in DOMAIN st.rules : i # j => st.rules[i].src.segs # st.rules[j].src.segs
DocumentedKinds == lastres \in {"ok", "ExpectedAbsolutePath", "ExpectedAngleBracketGenerics", "InvalidFromType", "InvalidToType"}

Emit == Len(hist) = MAXLEN => PrintT("CASE " \o ToJson([calls |-> hist]))
=================================================================================
