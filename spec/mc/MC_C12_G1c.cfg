CONSTANTS
  FAMILY = "G1c"
SPECIFICATION Spec
INVARIANTS DesignC12 CyclesAreCut Emit
CHECK_DEADLOCK FALSE
