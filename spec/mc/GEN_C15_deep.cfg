CONSTANTS
  MinLen = 20
  MaxLen = 140
  Letters = {97}
SPECIFICATION Spec
INVARIANTS Emit
CHECK_DEADLOCK FALSE
