CONSTANTS
  MinLen = 20
  MaxLen = 140
  Letters = {233}
SPECIFICATION Spec
INVARIANTS Emit
CHECK_DEADLOCK FALSE
