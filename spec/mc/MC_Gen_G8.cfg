CONSTANTS
  FAMILY = "G8"
  ALLSETTINGS = FALSE
  WITHPROG = FALSE
SPECIFICATION Spec
INVARIANTS DesignC02 DesignC08 DesignC10 Emit
CHECK_DEADLOCK TRUE
