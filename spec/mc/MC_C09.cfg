SPECIFICATION Spec
INVARIANTS DesignC09 Emit
CHECK_DEADLOCK FALSE
