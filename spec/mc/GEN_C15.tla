-------------------------------- MODULE GEN_C15 --------------------------------
(* Generator of long properly nested strings for the formatter (run with tlc -simulate): *)
(* builder actions append an opener, the closer matching the innermost open scope, a     *)
(* comma or a letter.  Scopes of 20..200 characters straddle the 32-character look-ahead. *)
EXTENDS Naturals, Sequences, TLC, Json

CONSTANTS MinLen, MaxLen, Letters   \* fewer letters => the random walk nests deeper

VARIABLES s, stack
vars == <<s, stack>>

Close(o) == CASE o = 123 -> 125 [] o = 40 -> 41 [] o = 60 -> 62

Init == s = <<>> /\ stack = <<>>

PushOpen == /\ Len(s) + Len(stack) < MaxLen - 1
            /\ \E o \in {123, 40, 60} : s' = Append(s, o) /\ stack' = Append(stack, o)
PopClose == /\ Len(stack) > 0
            /\ s' = Append(s, Close(stack[Len(stack)]))
            /\ stack' = SubSeq(stack, 1, Len(stack) - 1)
Letter == /\ Len(s) + Len(stack) < MaxLen
          /\ \E ch \in Letters : s' = Append(s, ch)
          /\ UNCHANGED stack
Comma == /\ Len(s) + Len(stack) < MaxLen
         /\ s' = Append(s, 44) /\ UNCHANGED stack
Done == Len(s) + Len(stack) >= MaxLen /\ Len(stack) = 0 /\ UNCHANGED vars

Next == PushOpen \/ PopClose \/ Letter \/ Comma \/ Done
Spec == Init /\ [][Next]_vars

Emit == (Len(stack) = 0 /\ Len(s) >= MinLen) => PrintT("CASE " \o ToJson([s |-> s]))
=================================================================================
