CONSTANTS
  FAMILY = "G13"
SPECIFICATION Spec
INVARIANTS DesignC12 CyclesAreCut Emit
CHECK_DEADLOCK FALSE
