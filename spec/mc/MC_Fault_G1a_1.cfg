CONSTANTS
  BASES = "G1a_1"
SPECIFICATION Spec
INVARIANTS DesignC10 Emit
CHECK_DEADLOCK TRUE
