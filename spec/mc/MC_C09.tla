-------------------------------- MODULE MC_C09 --------------------------------
(* C09 at design level: for every registry of the switch family and every one of the 2^6    *)
(* combinations of the switches, the model output obeys the per-switch rules and is equal to  *)
(* the output under each single flipped switch after erasing that switch's tokens.  Each      *)
(* (registry, combination) is emitted as a case with seven settings records (base + 6 flips). *)
EXTENDS Switches, Json

\* registries covering every heap-allocated prelude type (nested, boxed, under a generic parameter), compact and bits, docs
HeapExprs == {P_Vec(u8), str, P_Box(u32), P_BTreeMap(u8, str), P_BTreeSet(u16), P_Heap(u8), P_VecDeque(bool), P_Cow(str), P_Vec(P_Vec(str)),
              P_Opt(P_Box(A0("U"))), P_Adt("G", <<str>>), P_Tup(<<P_Vec(u8), P_Compact(u32)>>), P_Bits("u8", "Lsb0"), P_Compact(u64),
              P_Arr(P_BTreeMap(str, P_Vec(u8)), 2), P_Res(str, P_Vec(bool))}
\* generic definitions whose parameters need a marker: field-less, named, unnamed, enum
MarkerProg == [fam |-> "G9m", prog |-> Program(<<Struct("S", Mod, <<>>, <<SField("a", P_Adt("UnitPh", <<u8>>)), SField("b", P_Adt("NamedPh", <<u8, bool>>)),
                                                                         SField("c", P_Adt("TupPh", <<u16>>)), SField("d", P_Adt("EnumPh", <<str>>))>>),
                                                 Struct("UnitPh", Mod, <<Param("T")>>, <<SField("", P_Phantom(T))>>),
                                                 Struct("NamedPh", Mod, <<Param("T"), Param("U")>>, <<SField("a", T), SField("p", P_Phantom(U))>>),
                                                 Struct("TupPh", Mod, <<Param("T")>>, <<SField("", u8), SField("", P_Phantom(T))>>),
                                                 Enum("EnumPh", Mod, <<Param("T")>>, <<Variant("A", 0, <<SField("", u8)>>), Variant("B", 1, <<SField("p", P_Phantom(T))>>)>>)>>, <<>>),
               roots |-> <<A0("S")>>]
Programs == {G1aCase(e, sh, FALSE) : e \in HeapExprs, sh \in {"named", "vunnamed"}} \cup {G1aCase(u32, "named", TRUE), G1aCase(u32, "vnamed", TRUE), G1aCase(u16, "vunnamed", TRUE), G1aCase(u64, "unnamed", TRUE), G1aCase(P_Compact(u8), "vnamed", FALSE),
                G1aCase(P_Compact(u128), "unnamed", FALSE), G1aCase(A0("W"), "named", FALSE), G1aCase(u64, "unnamed", FALSE), G1aCase(P_Box(u16), "unnamed", FALSE), MarkerProg} \cup G1c(0)

VARIABLES c, S
Init == /\ c \in Programs
        /\ S \in {Combo(a, d, cc, r, cp, b) : a \in BOOLEAN, d \in BOOLEAN, cc \in BOOLEAN, r \in BOOLEAN, cp \in BOOLEAN, b \in BOOLEAN}
Next == UNCHANGED <<c, S>>
Spec == Init /\ [][Next]_<<c, S>>

Reg == Register(ProgOf(c), c.roots).reg
G(s) == Generate(Reg, s)
PathItems(g, s) == [k \in DOMAIN g.items |-> [path |-> <<s.root>> \o g.items[k].path, it |-> g.items[k].item]]

DesignC09 ==
  LET g == G(S) IN
  /\ g.res = "ok"
  /\ SwitchRulesFailed(Reg, S, PathItems(g, S)) = {}
  /\ \A sw \in SwitchNames : LET s2 == Flip(S, sw)  g2 == G(s2) IN
        /\ g2.res = "ok"
        /\ CanonOfModel(g, S, sw) = CanonOfModel(g2, s2, sw)

Emit == PrintT("CASE " \o ToJson([fam |-> "G9", reg |-> Reg, settings |-> <<S>> \o [i \in 1..6 |-> Flip(S, <<"alloc", "docs", "codec", "root", "compact", "bits">>[i])],
                                  switches |-> <<"alloc", "docs", "codec", "root", "compact", "bits">>]))
=================================================================================
