CONSTANTS
  FAMILY = "G2p_3s"
  ALLSETTINGS = FALSE
  WITHPROG = FALSE
SPECIFICATION Spec
INVARIANTS DesignC10 Emit
CHECK_DEADLOCK TRUE
