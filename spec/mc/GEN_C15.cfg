CONSTANTS
  MinLen = 20
  MaxLen = 200
  Letters = {97, 98, 233, 20870, 58, 49}
SPECIFICATION Spec
INVARIANTS Emit
CHECK_DEADLOCK FALSE
