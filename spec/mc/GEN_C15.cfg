CONSTANTS
  MinLen = 20
  MaxLen = 200
SPECIFICATION Spec
INVARIANTS Emit
CHECK_DEADLOCK FALSE
