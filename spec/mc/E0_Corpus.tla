-------------------------------- MODULE E0_Corpus --------------------------------
(* Check E0: abstract programs mirroring the #[derive(TypeInfo)] corpus compiled into the *)
(* harness.  Register(program) must equal the registry the real scale-info produces; a    *)
(* mismatch means the environment model is wrong (tool error), never a property violation. *)
EXTENDS ScaleInfo, Json

M == <<"vh", "run_misc", "corpus_types">>
u8 == P_Prim("u8")     u16 == P_Prim("u16")   u32 == P_Prim("u32")   u64 == P_Prim("u64")
u128 == P_Prim("u128") i8 == P_Prim("i8")     i16 == P_Prim("i16")   i32 == P_Prim("i32")
i64 == P_Prim("i64")   i128 == P_Prim("i128") bool == P_Prim("bool") char == P_Prim("char")
str == P_Prim("str")
T == P_Param("T")  U == P_Param("U")  E == P_Param("E")
A0(n) == P_Adt(n, <<>>)

Defs == <<
  Struct("Unit", M, <<>>, <<>>),
  Struct("Prims", M, <<>>, <<SField("a", bool), SField("b", char), SField("c", str), SField("d", u8), SField("e", u16),
         SField("f", u32), SField("g", u64), SField("h", u128), SField("i", i8), SField("j", i16), SField("k", i32),
         SField("l", i64), SField("m", i128)>>),
  Struct("Tup", M, <<>>, <<SField("", u8), SField("", P_Tup(<<u16, bool>>)), SField("", P_Arr(u32, 4)), SField("", P_Tup(<<>>)),
         SField("", P_Tup(<<u8>>))>>),
  Enum("Color", M, <<>>, <<Variant("Red", 0, <<>>), Variant("Green", 1, <<SField("", u8)>>),
         Variant("Blue", 2, <<SField("x", u16), SField("y", P_Vec(u8))>>)>>),
  Enum("Indexed", M, <<>>, <<Variant("A", 3, <<>>), Variant("B", 7, <<SField("", u8)>>), Variant("C", 2, <<>>)>>),
  Struct("Gen", M, <<Param("T")>>, <<SField("a", T), SField("b", P_Vec(T)), SField("c", P_Opt(T))>>),
  Struct("Gen2", M, <<Param("T"), Param("U")>>, <<SField("a", T), SField("b", U), SField("c", P_Tup(<<T, U>>)), SField("d", P_Arr(U, 2))>>),
  Struct("UsesGen", M, <<>>, <<SField("x", P_Adt("Gen", <<u8>>)), SField("y", P_Adt("Gen", <<bool>>)),
         SField("z", P_Adt("Gen2", <<u16, str>>)), SField("w", P_Adt("Gen2", <<bool, u64>>))>>),
  Struct("Phantom", M, <<Param("T"), Param("U")>>, <<SField("a", T), SField("p", P_Phantom(U))>>),
  Struct("UnitPhantom", M, <<Param("T")>>, <<SField("", P_Phantom(T))>>),
  Struct("UsesPhantom", M, <<>>, <<SField("a", P_Adt("Phantom", <<u8, u16>>)), SField("b", P_Adt("UnitPhantom", <<u32>>))>>),
  Struct("Boxed", M, <<>>, <<SField("a", P_Box(u32)), SField("b", P_Box(A0("Color"))), SField("c", P_Vec(P_Box(u8)))>>),
  Struct("Rec", M, <<>>, <<SField("v", u8), SField("next", P_Opt(P_Box(A0("Rec"))))>>),
  Struct("Tree", M, <<>>, <<SField("kids", P_Vec(A0("Tree"))), SField("label", str)>>),
  Enum("Expr", M, <<>>, <<Variant("Lit", 0, <<SField("", u32)>>),
         Variant("Add", 1, <<SField("", P_Box(A0("Expr"))), SField("", P_Box(A0("Expr")))>>),
         Variant("Neg", 2, <<SField("e", P_Box(A0("Expr")))>>)>>),
  Struct("MutA", M, <<>>, <<SField("b", P_Vec(A0("MutB")))>>),
  Struct("MutB", M, <<>>, <<SField("a", P_Opt(P_Box(A0("MutA")))), SField("n", u8)>>),
  Struct("Compacts", M, <<>>, <<CField("a", u8), CField("b", u32), SField("c", P_Compact(u64)), SField("d", P_Vec(P_Compact(u16))),
         CField("e", u128)>>),
  Struct("TupCompact", M, <<>>, <<CField("", u32), SField("", P_Compact(u8))>>),
  Struct("Colls", M, <<>>, <<SField("a", P_BTreeMap(u8, str)), SField("b", P_BTreeSet(u32)), SField("c", P_VecDeque(u16)),
         SField("d", P_Heap(u8)), SField("e", P_Opt(P_Res(u8, bool)))>>),
  Struct("Ranges", M, <<>>, <<SField("a", P_Range(u8)), SField("b", P_RangeI(u32))>>),
  Struct("NonZeros", M, <<>>, <<SField("a", P_NZ("u8")), SField("b", P_NZ("i32")), SField("c", P_NZ("u128"))>>),
  Struct("Assoc", M, <<Skipped("C")>>, <<SField("x", P_Assoc("C", "X")), SField("y", P_Assoc("C", "Y"))>>),
  Struct("UsesAssoc", M, <<>>, <<SField("a", P_Adt("Assoc", <<A0("C1")>>)), SField("b", P_Adt("Assoc", <<A0("C2")>>))>>),
  Struct("C1", M, <<>>, <<>>), Struct("C2", M, <<>>, <<>>),
  Struct("Bits", M, <<>>, <<SField("a", P_Bits("u8", "Lsb0")), SField("b", P_Bits("u32", "Msb0"))>>),
  Struct("Nested", M, <<>>, <<SField("a", P_Vec(P_Opt(P_Tup(<<u8, P_Adt("Gen", <<u16>>)>>)))), SField("b", P_Arr(P_Opt(A0("Color")), 2)),
         SField("c", P_Adt("Gen", <<P_Adt("Gen", <<u8>>)>>))>>),
  Struct("GenRec", M, <<Param("T")>>, <<SField("v", T), SField("next", P_Vec(P_Adt("GenRec", <<T>>)))>>),
  Struct("UsesGenRec", M, <<>>, <<SField("a", P_Adt("GenRec", <<u8>>)), SField("b", P_Adt("GenRec", <<bool>>))>>),
  Enum("GenEnum", M, <<Param("T"), Param("E")>>, <<Variant("Ok", 0, <<SField("", T)>>), Variant("Err", 1, <<SField("", E)>>),
         Variant("Both", 2, <<SField("t", T), SField("e", E)>>), Variant("Neither", 3, <<>>)>>),
  Struct("UsesGenEnum", M, <<>>, <<SField("a", P_Adt("GenEnum", <<u8, str>>)), SField("b", P_Adt("GenEnum", <<P_Tup(<<>>), P_Arr(u8, 2)>>))>>),
  Struct("Dur", M, <<>>, <<SField("d", P_Dur)>>),
  Struct("Wrapper", M, <<>>, <<SField("", u64)>>),
  Struct("Deep", M \o <<"inner">>, <<>>, <<SField("x", A0("Color")), SField("y", A0("Deepest"))>>),
  Struct("Deepest", M \o <<"inner", "deeper">>, <<>>, <<SField("", u8), SField("", P_Vec(A0("Wrapper")))>>),
  Struct("Cows", M, <<>>, <<SField("a", P_Cow(str)), SField("b", P_Cow(P_Vec(u8))), SField("c", P_Cow(u32))>>)
>>

Cfgs == << [name |-> "C1", assoc |-> <<[name |-> "X", ty |-> u8], [name |-> "Y", ty |-> bool]>>],
           [name |-> "C2", assoc |-> <<[name |-> "X", ty |-> u16], [name |-> "Y", ty |-> bool]>>] >>

P == Program(Defs, Cfgs)

Roots == << [name |-> "Unit", e |-> A0("Unit")], [name |-> "Prims", e |-> A0("Prims")], [name |-> "Tup", e |-> A0("Tup")],
  [name |-> "Color", e |-> A0("Color")], [name |-> "Indexed", e |-> A0("Indexed")], [name |-> "UsesGen", e |-> A0("UsesGen")],
  [name |-> "UsesPhantom", e |-> A0("UsesPhantom")], [name |-> "Boxed", e |-> A0("Boxed")], [name |-> "Rec", e |-> A0("Rec")],
  [name |-> "Tree", e |-> A0("Tree")], [name |-> "Expr", e |-> A0("Expr")], [name |-> "MutA", e |-> A0("MutA")],
  [name |-> "Compacts", e |-> A0("Compacts")], [name |-> "TupCompact", e |-> A0("TupCompact")], [name |-> "Colls", e |-> A0("Colls")],
  [name |-> "Ranges", e |-> A0("Ranges")], [name |-> "NonZeros", e |-> A0("NonZeros")], [name |-> "UsesAssoc", e |-> A0("UsesAssoc")],
  [name |-> "Bits", e |-> A0("Bits")], [name |-> "Nested", e |-> A0("Nested")], [name |-> "UsesGenRec", e |-> A0("UsesGenRec")],
  [name |-> "UsesGenEnum", e |-> A0("UsesGenEnum")], [name |-> "Dur", e |-> A0("Dur")], [name |-> "inner::Deep", e |-> A0("Deep")],
  [name |-> "Cows<'static>", e |-> A0("Cows")],
  [name |-> "Gen<u8>", e |-> P_Adt("Gen", <<u8>>)], [name |-> "Gen2<u8, u16>", e |-> P_Adt("Gen2", <<u8, u16>>)],
  [name |-> "Phantom<u8, bool>", e |-> P_Adt("Phantom", <<u8, bool>>)], [name |-> "UnitPhantom<u8>", e |-> P_Adt("UnitPhantom", <<u8>>)],
  [name |-> "Assoc<C1>", e |-> P_Adt("Assoc", <<A0("C1")>>)], [name |-> "GenEnum<u8, bool>", e |-> P_Adt("GenEnum", <<u8, bool>>)] >>

VARIABLE i
Init == i \in DOMAIN Roots
Next == UNCHANGED i
Emit == PrintT("E0 " \o ToJson([name |-> Roots[i].name, reg |-> Register(P, <<Roots[i].e>>).reg]))
=================================================================================
