CONSTANTS
  FAMILY = "G7"
  ALLSETTINGS = FALSE
  WITHPROG = FALSE
SPECIFICATION Spec
INVARIANTS DesignC02 DesignC07 DesignC10 Emit
CHECK_DEADLOCK TRUE
