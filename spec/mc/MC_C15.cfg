CONSTANTS
  L = 6
  LGEN = 5
  MAXTOK = 3
  Alphabet = {123, 125, 40, 41, 60, 62, 44, 233, 32}
SPECIFICATION Spec
INVARIANTS StripInv IndentInv TypeOK RunInv GenInv
CHECK_DEADLOCK TRUE
