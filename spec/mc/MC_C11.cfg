SPECIFICATION Spec
INVARIANTS SoundAndComplete Emit
CHECK_DEADLOCK TRUE
