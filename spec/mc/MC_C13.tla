-------------------------------- MODULE MC_C13 --------------------------------
(* Descriptions at design level: for every registry of the families and every id the concrete  *)
(* model of type_description terminates successfully (fuel never exhausted), the expansion     *)
(* stack never holds a named id twice, and its token sequence is accepted by the abstract      *)
(* acceptor (lock-step walk + every reachable struct/enum expanded at least once).            *)
EXTENDS Describe, Families, Json

CONSTANTS FAMILY, NODES

Cases == CASE FAMILY = "G1a_1" -> G1a_1(0) [] FAMILY = "G1a_2" -> G1a_2(0) [] FAMILY = "G1c" -> G1c(0) [] FAMILY = "G8" -> G8(0) [] FAMILY = "G2p_2" -> G2p_2(0) [] FAMILY = "G13" -> G13(NODES)

VARIABLES c, id
Init == c \in Cases /\ id \in Ids(RegOf(c))
Next == UNCHANGED <<c, id>>
Spec == Init /\ [][Next]_<<c, id>>

Reg == RegOf(c)
D == Description(Reg, id)
DesignC13 == D.ok /\ DescAccepts(Reg, id, D.toks)
Emit == id = 0 => PrintT("CASE " \o ToJson([fam |-> c.fam, reg |-> Reg]))
=================================================================================
