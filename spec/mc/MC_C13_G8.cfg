CONSTANTS
  FAMILY = "G8"
SPECIFICATION Spec
INVARIANTS DesignC13 Emit
CHECK_DEADLOCK FALSE
