CONSTANTS
  FAMILY = "G8"
  NODES = 2
SPECIFICATION Spec
INVARIANTS DesignC13 Emit
CHECK_DEADLOCK FALSE
