-------------------------------- MODULE MC_Fault --------------------------------
(* C10 at design level: every single fault of every kind at every site of every base      *)
(* registry (programs of G1a depth <= 1 and G1c: unique paths, no recursive derives) is    *)
(* run through the generation loop, the de-duplication model and path resolution; the      *)
(* result must be the documented error kind (or success when the site is never resolved)   *)
(* and never a panic.  Terminal states are emitted as replayable cases with the expected   *)
(* observation.                                                                            *)
EXTENDS Dedup, Faults, Families, SettingsPool, Json

CONSTANTS BASES   \* "G1c" | "G1a_1"

UniquePaths(reg) == \A p \in UserPaths(reg) : Cardinality(IdsOfPath(reg, p)) = 1
Bases == {x \in (IF BASES = "G1c" THEN G1c(0) ELSE G1a_1(0)) : UniquePaths(Register(ProgOf(x), x.roots).reg)}

VARIABLES b, f, gst
vars == <<b, f, gst>>

Init == /\ b \in Bases
        /\ f \in FaultsOf(Register(ProgOf(b), b.roots).reg, Base)
        /\ gst = GenStart(f.reg, GenInit)

Running == gst.res = "running" /\ gst.i <= Len(f.reg)
Visit == /\ Running
         /\ gst' = VisitApply(f.reg, gst, VisitOutcome(f.reg, f.settings, gst))
         /\ UNCHANGED <<b, f>>
Finish == gst.res = "running" /\ gst.i > Len(f.reg) /\ gst' = GenFinish(f.reg, gst) /\ UNCHANGED <<b, f>>
Done == gst.res # "running" /\ UNCHANGED vars
Next == Visit \/ Finish \/ Done
Spec == Init /\ [][Next]_vars

Terminal == gst.res # "running"
Dd == DedupRun(f.reg)
PathRes(id) == ResolveTypePath(f.reg, f.settings, id)

DesignC10 == Terminal =>
  /\ gst.res \in AllowedGen(f.kind)
  /\ Dd.res \in AllowedDedup(f.kind)
  /\ \A id \in Ids(f.reg) : (IF PathRes(id).err = "" THEN "ok" ELSE PathRes(id).err) \in AllowedPath(f.kind)
  /\ (f.kind = "Dangling" /\ gst.res = "TypeNotFound") => gst.errid = Len(f.reg) + 3

Emit == Terminal =>
  PrintT("CASE " \o ToJson([fam |-> "G4", kind |-> f.kind, site |-> f.site, reg |-> f.reg, settings |-> f.settings,
     expect |-> [gen |-> [res |-> gst.res, id |-> gst.errid, given |-> gst.given, expected |-> gst.expected],
                 dedup |-> [res |-> Dd.res, given |-> Dd.given, expected |-> Dd.expected],
                 paths |-> [i \in DOMAIN f.reg |-> [res |-> IF PathRes(i - 1).err = "" THEN "ok" ELSE PathRes(i - 1).err, id |-> PathRes(i - 1).errid]]]]))
=================================================================================
