-------------------------------- MODULE Typegen --------------------------------
(* Concrete model of the type generator (typegen/src/typegen/{mod,type_path,type_params}.rs, *)
(* ir/type_ir.rs, settings/{derives,substitutes}.rs) at the level of the projected output.  *)
(* Shaped like the code: resolve_type_path_recurse arm by arm, create_composite_ir_kind,    *)
(* create_type_ir, flatten_recursive_derives/collect_type_ids, and the generation loop as   *)
(* a state machine with one Visit action per registry entry (keep-first on occupied path).  *)
EXTENDS RustSem, TypesEqual

(* ---------------- small string helpers (TLC: SubSeq/Len/\o work on strings) -------------- *)
Contains(s, pat) == \E i \in 1..(Len(s) - Len(pat) + 1) : SubSeq(s, i, i + Len(pat) - 1) = pat
StartsWith(s, pat) == Len(s) >= Len(pat) /\ SubSeq(s, 1, Len(pat)) = pat

(* ---------------- type parameters ---------------- *)
\* TypeParameters::from_scale_info: `_i` by declared position, skipped parameters absent
RECURSIVE ParamsFrom(_, _)
ParamsFrom(params, i) ==
  IF i > Len(params) THEN <<>>
  ELSE (IF params[i].ty = -1 THEN <<>> ELSE <<[id |-> params[i].ty, orig |-> params[i].name, name |-> "_" \o ToString(i - 1)]>>)
       \o ParamsFrom(params, i + 1)
TypeParams(e) == ParamsFrom(e.params, 1)
ParamTree(name) == TPath(FALSE, <<name>>, <<>>)

(* ---------------- results of path resolution ---------------- *)
OkR(ty, used, kind) == [err |-> "", errid |-> -1, ty |-> ty, used |-> used, kind |-> kind]
ErrR(k, id) == [err |-> k, errid |-> id, ty |-> [k |-> "other", text |-> ""], used |-> {}, kind |-> ""]

PathStrOfTree(t) == (IF t.lead THEN "::" ELSE "") \o JoinWith(t.segs, "::")

(* ---------------- substitutes (settings/substitutes.rs) ---------------- *)
\* rule = [src: path tree (args = declared source generics as single-ident paths), dst: path tree]
SubFor(S, path) == LET idx == {i \in DOMAIN S.subs : S.subs[i].src.segs = path} IN
                   IF idx = {} THEN 0 ELSE CHOOSE i \in idx : \A j \in idx : j <= i   \* last inserted wins
IsPassThrough(rule) == Len(rule.src.args) = 0 /\ rule.dst.k = "path" /\ Len(rule.dst.args) = 0
IdentOf(t) == IF t.k = "path" /\ ~t.lead /\ Len(t.segs) = 1 /\ Len(t.args) = 0 THEN t.segs[1] ELSE ""
\* replace_path_params_recursively: only inside angle-bracketed path arguments
RECURSIVE ReplaceArgs(_, _)
ReplaceOne(a, map) ==
  IF a.k \notin {"path", "qpath"} THEN a
  ELSE IF IdentOf(a) # "" /\ GenvHas(map, IdentOf(a))
       THEN map[CHOOSE m \in DOMAIN map : map[m].name = IdentOf(a) /\ \A m2 \in DOMAIN map : map[m2].name = IdentOf(a) => m <= m2].ty
  ELSE ReplaceArgs(a, map)
ReplaceArgs(t, map) ==   \* map: Seq of [name, ty]; every segment's angle-bracketed arguments are visited
  IF t.k = "path" THEN [t EXCEPT !.args = [i \in DOMAIN @ |-> ReplaceOne(@[i], map)]]
  ELSE IF t.k = "qpath" THEN [t EXCEPT !.segargs = [sg \in DOMAIN @ |-> [i \in DOMAIN @[sg] |-> ReplaceOne(@[sg][i], map)]]]
  ELSE t
ApplySub(rule, params) ==
  IF IsPassThrough(rule) THEN [rule.dst EXCEPT !.args = params]
  ELSE LET srcIdents == [i \in DOMAIN rule.src.args |-> IdentOf(rule.src.args[i])]
           usable == {i \in DOMAIN srcIdents : i <= Len(params)}
           map == [i \in 1..Cardinality(usable) |-> [name |-> srcIdents[i], ty |-> params[i]]]
       IN IF Len(map) = 0 THEN rule.dst ELSE ReplaceArgs(rule.dst, map)

(* ---------------- resolve_type_path_recurse ---------------- *)
FirstParamMatch(pp, id, orig) ==
  LET idx == {i \in DOMAIN pp : pp[i].id = id /\ (orig = "" \/ pp[i].orig = orig)} IN
  IF idx = {} THEN 0 ELSE CHOOSE i \in idx : \A j \in idx : i <= j

RECURSIVE RP(_, _, _, _, _, _)
RECURSIVE RPList(_, _, _, _, _)
\* resolve ids in order, stop at the first error
RPList(reg, S, ids, pp, acc) ==
  IF Len(ids) = 0 THEN [err |-> "", errid |-> -1, rs |-> acc]
  ELSE LET r == RP(reg, S, Head(ids), FALSE, pp, "") IN
       IF r.err # "" THEN [err |-> r.err, errid |-> r.errid, rs |-> acc]
       ELSE RPList(reg, S, Tail(ids), pp, Append(acc, r))

UsedOf(rs) == UNION {rs[i].used : i \in DOMAIN rs}
TysOf(rs) == [i \in DOMAIN rs |-> rs[i].ty]

RP(reg, S, id, isField, pp, orig) ==
  LET pm == FirstParamMatch(pp, id, orig) IN
  IF pm > 0 THEN OkR(ParamTree(pp[pm].name), {pp[pm].name}, "param")
  ELSE IF ~HasId(reg, id) THEN ErrR("TypeNotFound", id)
  ELSE
  LET ty0 == Ty(reg, id)
      isCow == Len(ty0.path) = 1 /\ ty0.path[1] = "Cow"
  IN
  IF isCow /\ Len(ty0.params) = 0 THEN ErrR("panic", -1)
  ELSE IF isCow /\ ty0.params[1].ty = -1 THEN ErrR("InvalidType", -1)
  ELSE
  \* Cow is transparent: the inner type is resolved like any other (it may be a parent parameter)
  IF isCow THEN RP(reg, S, ty0.params[1].ty, isField, pp, "")
  ELSE
  LET ty == ty0
      live == LiveParams(ty)
      ps == RPList(reg, S, [i \in DOMAIN live |-> live[i].ty], pp, <<>>)
  IN
  IF ps.err # "" THEN ErrR(ps.err, ps.errid)
  ELSE
  LET d == ty.def
      args == TysOf(ps.rs)
      argsUsed == UsedOf(ps.rs)
  IN
  CASE d.k \in {"comp", "var"} ->
         LET si == SubFor(S, ty.path) IN
         IF Len(ty.path) > 0 /\ si > 0 THEN
              LET rule == S.subs[si]
                  \* PassThrough keeps the params (and their parent-parameter uses); Specified embeds them in the path
              IN OkR(ApplySub(rule, args), IF IsPassThrough(rule) THEN argsUsed ELSE {}, "path")
         ELSE IF Len(ty.path) = 0 THEN ErrR("panic", -1)
         ELSE IF Len(ty.path) = 1 THEN
              IF ty.path[1] \in PreludeNames \cup {"Duration"}
              THEN LET tg == PreludeTarget(S, ty.path[1]) IN OkR(TPath(tg.lead, tg.segs, args), argsUsed, "path")
              ELSE ErrR("panic", -1)
         ELSE OkR(TPath(FALSE, <<S.root>> \o ty.path, args), argsUsed, "path")
    [] d.k = "prim" -> OkR(PrimTree(S, d.p), {}, "prim:" \o d.p)
    [] d.k = "arr" ->
         LET r == RP(reg, S, d.of, FALSE, pp, "") IN
         IF r.err # "" THEN r ELSE OkR([k |-> "arr", of |-> r.ty, len |-> d.len], r.used, "arr")
    [] d.k = "seq" ->
         LET r == RP(reg, S, d.of, FALSE, pp, "") IN
         IF r.err # "" THEN r ELSE OkR(TPath(S.alloc.lead, S.alloc.segs \o <<"vec", "Vec">>, <<r.ty>>), r.used, "vec")
    [] d.k = "tup" ->
         LET rs == RPList(reg, S, d.elems, pp, <<>>) IN
         IF rs.err # "" THEN ErrR(rs.err, rs.errid)
         ELSE OkR([k |-> "tup", elems |-> TysOf(rs.rs)], UsedOf(rs.rs), "tup")
    [] d.k = "compact" ->
         LET r == RP(reg, S, d.of, FALSE, pp, "") IN
         IF r.err # "" THEN r
         ELSE IF ~S.has_compact THEN ErrR("CompactPathNone", -1)
         ELSE OkR(IF isField THEN r.ty ELSE TPath(S.compact.lead, S.compact.segs, <<r.ty>>), r.used, "compact")
    [] d.k = "bits" ->
         IF ~S.has_bits THEN ErrR("DecodedBitsPathNone", -1)
         ELSE LET ro == RP(reg, S, d.order, FALSE, pp, "") IN
              IF ro.err # "" THEN ro
              ELSE LET rs == RP(reg, S, d.store, FALSE, pp, "") IN
                   IF rs.err # "" THEN rs
                   ELSE OkR(TPath(S.bits.lead, S.bits.segs, <<rs.ty, ro.ty>>), ro.used \cup rs.used, "bits")

\* u256/i256 reach `unimplemented!` only when tokens are produced
RECURSIVE HasBigInt(_)
HasBigInt(t) == CASE t.k = "path" -> (t.lead /\ t.segs \in {<<"core", "primitive", "u256">>, <<"core", "primitive", "i256">>})
                                     \/ \E i \in DOMAIN t.args : HasBigInt(t.args[i])
                  [] t.k = "qpath" -> \E sg \in DOMAIN t.segargs : \E i \in DOMAIN t.segargs[sg] : HasBigInt(t.segargs[sg][i])
                  [] t.k = "tup" -> \E i \in DOMAIN t.elems : HasBigInt(t.elems[i])
                  [] t.k = "arr" -> HasBigInt(t.of)
                  [] OTHER -> FALSE

ResolveTypePath(reg, S, id) ==
  LET r == RP(reg, S, id, FALSE, <<>>, "") IN
  IF r.err = "" /\ HasBigInt(r.ty) THEN ErrR("panic", -1) ELSE r

(* ---------------- create_composite_ir_kind ---------------- *)
BoxTree(S, t) == TPath(S.alloc.lead, S.alloc.segs \o <<"boxed", "Box">>, <<t>>)
PhantomTree(names) == TPath(TRUE, <<"core", "marker", "PhantomData">>,
                            <<IF Len(names) = 1 THEN ParamTree(names[1]) ELSE [k |-> "tup", elems |-> [i \in DOMAIN names |-> ParamTree(names[i])]]>>)

RECURSIVE FieldsIR(_, _, _, _, _, _)
FieldsIR(reg, S, fields, pp, vis, acc) ==   \* acc: [fs, used, kinds]
  IF Len(fields) = 0 THEN [err |-> "", errid |-> -1, fs |-> acc.fs, used |-> acc.used, kinds |-> acc.kinds]
  ELSE LET f == Head(fields)
           r == RP(reg, S, f.ty, TRUE, pp, f.tn)
       IN IF r.err # "" THEN [err |-> r.err, errid |-> r.errid, fs |-> <<>>, used |-> {}, kinds |-> <<>>]
          ELSE LET isCompact == r.kind = "compact"
                   \* a compact field is emitted as `#[codec(compact)] inner`, never boxed (Box<inner> has no compact encoding)
                   boxed == ~isCompact /\ Contains(f.tn, "Box<")
                   rf == [name |-> f.name, vis |-> vis, ty |-> IF boxed THEN BoxTree(S, r.ty) ELSE r.ty,
                          compact |-> isCompact /\ S.codec, skip |-> FALSE, attrs |-> <<>>]
               IN FieldsIR(reg, S, Tail(fields), pp, vis,
                           [fs |-> Append(acc.fs, rf), used |-> acc.used \cup r.used, kinds |-> Append(acc.kinds, r.kind)])

CompositeKind(reg, S, fields, pp, vis) ==
  IF Len(fields) = 0 THEN [err |-> "", errid |-> -1, style |-> "unit", fs |-> <<>>, used |-> {}, kinds |-> <<>>]
  ELSE IF MixedFields(fields) THEN [err |-> "InvalidFields", errid |-> -1, style |-> "", fs |-> <<>>, used |-> {}, kinds |-> <<>>]
  ELSE LET r == FieldsIR(reg, S, fields, pp, vis, [fs |-> <<>>, used |-> {}, kinds |-> <<>>]) IN
       [err |-> r.err, errid |-> r.errid, style |-> IF AllNamed(fields) THEN "named" ELSE "unnamed",
        fs |-> r.fs, used |-> r.used, kinds |-> r.kinds]

CouldDeriveAsCompact(ck) == Len(ck.fs) = 1 /\ ck.kinds[1] \in {"prim:" \o p : p \in UnsignedPrims}

(* ---------------- derives (settings/derives.rs) ---------------- *)
\* collect_type_ids exactly as coded: params, fields, variants, sequence, array, tuple, compact - not bit sequences
CollectRefs(e) ==
  ParamRefs(e) \cup (CASE e.def.k = "bits" -> {} [] OTHER -> DefRefs(e.def))
RECURSIVE CollectFrom(_, _, _)
CollectFrom(reg, frontier, seen) ==
  IF frontier = {} THEN seen
  ELSE LET nxt == (UNION {CollectRefs(Ty(reg, i)) : i \in frontier}) \ seen IN CollectFrom(reg, nxt, seen \cup nxt)
CollectTypeIds(reg, id) == CollectFrom(reg, {id}, {id})

\* the settings as accumulated sets: calls = Seq([op, path, items, recursive])
CallsFor(S, ops, pathStr, rec) ==
  {i \in DOMAIN S.derive_calls : S.derive_calls[i].op \in ops /\ (S.derive_calls[i].op \in {"all_d", "all_a"}
        \/ (PathStrOfTree(S.derive_calls[i].path) = pathStr /\ S.derive_calls[i].recursive = rec))}
ItemsOf(S, idx) == UNION {RangeOf(S.derive_calls[i].items) : i \in idx}
GlobalDerives(S) == ItemsOf(S, CallsFor(S, {"all_d"}, "", FALSE))
GlobalAttrs(S) == ItemsOf(S, CallsFor(S, {"all_a"}, "", FALSE))
SpecificDerives(S, p) == ItemsOf(S, CallsFor(S, {"for_d"}, p, FALSE))
SpecificAttrs(S, p) == ItemsOf(S, CallsFor(S, {"for_a"}, p, FALSE))
RecDerives(S, p) == ItemsOf(S, CallsFor(S, {"for_d"}, p, TRUE))
RecAttrs(S, p) == ItemsOf(S, CallsFor(S, {"for_a"}, p, TRUE))
RecRoots(S) == {PathStrOfTree(S.derive_calls[i].path) : i \in {j \in DOMAIN S.derive_calls :
                   S.derive_calls[j].op \in {"for_d", "for_a"} /\ S.derive_calls[j].recursive}}

RootSegs(S, r) == LET i == CHOOSE j \in DOMAIN S.derive_calls : S.derive_calls[j].op \in {"for_d", "for_a"} /\ PathStrOfTree(S.derive_calls[j].path) = r
                  IN S.derive_calls[i].path.segs
\* flatten_recursive_derives: every registry id carrying a root path is flattened from
IdsOfPathStr(reg, p) == {i \in Ids(reg) : Len(Ty(reg, i).path) > 0 /\ PathStr(Ty(reg, i).path) = p}
RootsReaching(reg, S, id) == {r \in RecRoots(S) : \E ir \in IdsOfPathStr(reg, r) : id \in CollectTypeIds(reg, ir)}
\* derives merged per path: every id of the path contributes what reached it
FlatDerives(reg, S, path) ==
  GlobalDerives(S) \cup SpecificDerives(S, PathStr(path))
  \cup UNION {UNION {RecDerives(S, r) : r \in RootsReaching(reg, S, id)} : id \in IdsOfPath(reg, path)}
FlatAttrs(reg, S, path) ==
  GlobalAttrs(S) \cup SpecificAttrs(S, PathStr(path))
  \cup UNION {UNION {RecAttrs(S, r) : r \in RootsReaching(reg, S, id)} : id \in IdsOfPath(reg, path)}

CompactAsStr(S) == PathStrOfTree(S.compact_as)

(* ---------------- create_type_ir: the projected item ---------------- *)
DocsOf(S, docs) == IF S.docs THEN docs ELSE <<>>

RECURSIVE VariantsIR(_, _, _, _, _)
VariantsIR(reg, S, vs, pp, acc) ==
  IF Len(vs) = 0 THEN [err |-> "", errid |-> -1, vs |-> acc.vs, used |-> acc.used]
  ELSE LET v == Head(vs)
           ck == CompositeKind(reg, S, v.fields, pp, FALSE)
       IN IF ck.err # "" THEN [err |-> ck.err, errid |-> ck.errid, vs |-> <<>>, used |-> {}]
          ELSE VariantsIR(reg, S, Tail(vs), pp,
                 [vs |-> Append(acc.vs, [name |-> v.name, index |-> IF S.codec THEN v.index ELSE -1, attrs |-> <<>>,
                                         docs |-> DocsOf(S, v.docs), style |-> ck.style, fields |-> ck.fs, disc |-> FALSE]),
                  used |-> acc.used \cup ck.used])

Item(kind, name, generics, derives, attrs, docs, style, fields, variants) ==
  [kind |-> kind, name |-> name, generics |-> generics, derives |-> derives, attrs |-> attrs, docs |-> docs,
   style |-> style, fields |-> fields, variants |-> variants,
   semi |-> kind = "struct" /\ style \in {"unit", "unnamed"}]      \* trailing `;` for unit and tuple structs

\* returns [err, errid, item]; derives/attrs are sets of strings (their emitted order is C06's business)
CreateTypeIR(reg, S, e, derives, attrs) ==
  LET pp == TypeParams(e)
      generics == [i \in DOMAIN pp |-> pp[i].name]
      Unused(used) == SelectSeq(generics, LAMBDA g : g \notin used)
  IN
  IF e.def.k = "comp" THEN
     LET ck == CompositeKind(reg, S, e.def.fields, pp, TRUE) IN
     IF ck.err # "" THEN [err |-> ck.err, errid |-> ck.errid, item |-> NoItem]
     ELSE LET un == Unused(ck.used)
              marker == PhantomTree(un)
              fs == IF Len(un) = 0 THEN ck.fs
                    ELSE IF ck.style = "named" THEN Append(ck.fs, [name |-> "__ignore", vis |-> TRUE, ty |-> marker, compact |-> FALSE, skip |-> S.codec, attrs |-> <<>>])
                    ELSE IF ck.style = "unnamed" THEN Append(ck.fs, [name |-> "", vis |-> TRUE, ty |-> marker, compact |-> FALSE, skip |-> S.codec, attrs |-> <<>>])
                    ELSE <<[name |-> "", vis |-> TRUE, ty |-> marker, compact |-> FALSE, skip |-> FALSE, attrs |-> <<>>]>>
              style == IF ck.style = "unit" /\ Len(un) > 0 THEN "unnamed" ELSE ck.style
              ds == derives \cup (IF CouldDeriveAsCompact(ck) /\ S.has_compact_as THEN {CompactAsStr(S)} ELSE {})
          IN [err |-> "", errid |-> -1,
              item |-> Item("struct", Ident(e.path), generics, ds, attrs, DocsOf(S, e.docs), style, fs, <<>>)]
  ELSE
     LET rv == VariantsIR(reg, S, e.def.variants, pp, [vs |-> <<>>, used |-> {}]) IN
     IF rv.err # "" THEN [err |-> rv.err, errid |-> rv.errid, item |-> NoItem]
     ELSE LET un == Unused(rv.used)
              vs == IF Len(un) = 0 THEN rv.vs
                    ELSE Append(rv.vs, [name |-> "__Ignore", index |-> -1, attrs |-> <<>>, docs |-> <<>>, style |-> "unnamed",
                                        fields |-> <<[name |-> "", vis |-> FALSE, ty |-> PhantomTree(un), compact |-> FALSE, skip |-> FALSE, attrs |-> <<>>]>>,
                                        disc |-> FALSE])
          IN [err |-> "", errid |-> -1,
              item |-> Item("enum", Ident(e.path), generics, derives, attrs, DocsOf(S, e.docs), "", <<>>, vs)]

\* two same-path types can share one generated item iff their candidate items coincide
CandidateItem(reg, S, id) == IF IsNamedDef(Ty(reg, id).def) THEN CreateTypeIR(reg, S, Ty(reg, id), {}, {})
                             ELSE [err |-> "", errid |-> -1, item |-> Item("builtin", "", <<>>, {}, {}, <<>>, "", <<>>, <<>>)]
\* ... up to Box at field level, which is transparent on the wire
UnboxItemWith(S, it) == [it EXCEPT !.fields = [i \in DOMAIN @ |-> [@[i] EXCEPT !.ty = Unbox(S, @)]],
                                   !.variants = [v \in DOMAIN @ |-> [@[v] EXCEPT !.fields = [i \in DOMAIN @ |-> [@[i] EXCEPT !.ty = Unbox(S, @)]]]]]
CoRepItems(reg, S, a, b) == LET ca == CandidateItem(reg, S, a)  cb == CandidateItem(reg, S, b) IN
                            ca.err = "" /\ cb.err = "" /\ UnboxItemWith(S, ca.item) = UnboxItemWith(S, cb.item)

(* ---------------- the generation loop as a state machine ---------------- *)
\* gst = [i: next registry position, items: Seq([path, id, item]), res, errid, events]
GenInit == [i |-> 1, items |-> <<>>, res |-> "running", errid |-> -1, given |-> -1, expected |-> -1]

SanityFail(reg) == LET bad == {i \in 1..Len(reg) : reg[i].id # i - 1} IN
                   IF bad = {} THEN 0 ELSE CHOOSE i \in bad : \A j \in bad : i <= j

ItemAt(gst, path) == LET idx == {k \in DOMAIN gst.items : gst.items[k].path = path} IN
                     IF idx = {} THEN 0 ELSE CHOOSE k \in idx : TRUE

\* outcome of visiting position i: "substituted" | "prelude" | "builtin" | "insert" | "keep" | "duplicate" | "error"
VisitOutcome(reg, S, gst) ==
  LET e == reg[gst.i] IN
  IF Len(e.path) > 0 /\ SubFor(S, e.path) > 0 THEN [out |-> "substituted", other |-> -1, err |-> "", errid |-> -1, item |-> NoItem]
  ELSE IF Len(e.path) <= 1 THEN [out |-> "prelude", other |-> -1, err |-> "", errid |-> -1, item |-> NoItem]
  ELSE IF ~IsNamedDef(e.def) THEN [out |-> "builtin", other |-> -1, err |-> "", errid |-> -1, item |-> NoItem]
  ELSE LET ir == CreateTypeIR(reg, S, e, FlatDerives(reg, S, e.path), FlatAttrs(reg, S, e.path)) IN
       IF ir.err # "" THEN [out |-> "error", other |-> -1, err |-> ir.err, errid |-> ir.errid, item |-> NoItem]
       ELSE LET k == ItemAt(gst, e.path) IN
            IF k = 0 THEN [out |-> "insert", other |-> -1, err |-> "", errid |-> -1, item |-> ir.item]
            ELSE IF TypesEqual(reg, e.id, gst.items[k].id) THEN [out |-> "keep", other |-> gst.items[k].id, err |-> "", errid |-> -1, item |-> NoItem]
            ELSE [out |-> "duplicate", other |-> gst.items[k].id, err |-> "DuplicateTypePath", errid |-> -1, item |-> NoItem]

VisitApply(reg, gst, vo) ==
  LET e == reg[gst.i]
      nxt == [gst EXCEPT !.i = @ + 1] IN
  CASE vo.out = "insert" -> [nxt EXCEPT !.items = Append(@, [path |-> e.path, id |-> e.id, item |-> vo.item])]
    [] vo.out \in {"error", "duplicate"} -> [gst EXCEPT !.res = vo.err, !.errid = vo.errid]
    [] OTHER -> nxt

GenStart(reg, gst) ==
  LET bad == SanityFail(reg) IN
  IF bad > 0 THEN [gst EXCEPT !.res = "RegistryTypeIdsInvalid", !.given = reg[bad].id, !.expected = bad - 1] ELSE gst
GenFinish(reg, gst) == IF gst.res = "running" /\ gst.i > Len(reg) THEN [gst EXCEPT !.res = "ok"] ELSE gst

RECURSIVE GenLoop(_, _, _)
GenLoop(reg, S, gst) ==
  IF gst.res # "running" THEN gst
  ELSE IF gst.i > Len(reg) THEN GenFinish(reg, gst)
  ELSE GenLoop(reg, S, VisitApply(reg, gst, VisitOutcome(reg, S, gst)))
Generate(reg, S) == GenLoop(reg, S, GenStart(reg, GenInit))
==================================================================================
