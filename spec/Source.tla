-------------------------------- MODULE Source --------------------------------
(* The source round trip (C05): what the generated item of a definition must look like,    *)
(* derived from the *source program* alone - independent of the registry and of the        *)
(* generator model.  ExpectedItem(P, S, d) is the definition with parameters `_i` by        *)
(* declared position (skipped ones absent), field types = source expressions under the      *)
(* documented normalisations: Box kept only at field level, Cow / VecDeque erased to their  *)
(* wire form, compact as attribute, PhantomData fields replaced by one trailing marker      *)
(* naming exactly the otherwise unused parameters (declared order).                         *)
EXTENDS Typegen, Families

ParamIndex(d, n) == CHOOSE i \in DOMAIN d.params : d.params[i].name = n
GenericName(d, n) == "_" \o ToString(ParamIndex(d, n) - 1)
LiveGenerics(d) == LET K(i) == ~d.params[i].skipped IN
                   [k \in DOMAIN SelectSeq([i \in DOMAIN d.params |-> i], K) |-> "_" \o ToString(SelectSeq([i \in DOMAIN d.params |-> i], K)[k] - 1)]

\* source expression -> generated type tree (nested position: no field-level forms)
RECURSIVE ETree(_, _, _, _)
ETreeList(P, S, d, es) == [i \in DOMAIN es |-> ETree(P, S, d, es[i])]
ETree(P, S, d, e) ==
  CASE e.k = "prim"     -> PrimTree(S, e.p)
    [] e.k = "param"    -> ParamTree(GenericName(d, e.name))
    [] e.k \in {"vec", "vecdeque"} -> TPath(S.alloc.lead, S.alloc.segs \o <<"vec", "Vec">>, <<ETree(P, S, d, e.of)>>)
    [] e.k = "arr"      -> [k |-> "arr", of |-> ETree(P, S, d, e.of), len |-> e.len]
    [] e.k = "tup"      -> [k |-> "tup", elems |-> ETreeList(P, S, d, e.elems)]
    [] e.k = "opt"      -> TPath(TRUE, <<"core", "option", "Option">>, <<ETree(P, S, d, e.of)>>)
    [] e.k = "res"      -> TPath(TRUE, <<"core", "result", "Result">>, <<ETree(P, S, d, e.ok), ETree(P, S, d, e.err)>>)
    [] e.k \in {"box", "cow"} -> ETree(P, S, d, e.of)                       \* erased below field level
    [] e.k = "compact"  -> TPath(S.compact.lead, S.compact.segs, <<ETree(P, S, d, e.of)>>)
    [] e.k = "btmap"    -> TPath(S.alloc.lead, S.alloc.segs \o <<"collections", "BTreeMap">>, <<ETree(P, S, d, e.key), ETree(P, S, d, e.val)>>)
    [] e.k = "btset"    -> TPath(S.alloc.lead, S.alloc.segs \o <<"collections", "BTreeSet">>, <<ETree(P, S, d, e.of)>>)
    [] e.k = "heap"     -> TPath(S.alloc.lead, S.alloc.segs \o <<"collections", "BinaryHeap">>, <<ETree(P, S, d, e.of)>>)
    [] e.k = "range"    -> TPath(TRUE, <<"core", "ops", "Range">>, <<ETree(P, S, d, e.of)>>)
    [] e.k = "rangei"   -> TPath(TRUE, <<"core", "ops", "RangeInclusive">>, <<ETree(P, S, d, e.of)>>)
    [] e.k = "nz"       -> TPath(TRUE, <<"core", "num", NZName(e.p)>>, <<>>)
    [] e.k = "dur"      -> TPath(TRUE, <<"core", "time", "Duration">>, <<>>)
    [] e.k = "bits"     -> TPath(S.bits.lead, S.bits.segs, <<PrimTree(S, e.store), TPath(FALSE, <<S.root, "bitvec", "order", e.order>>, <<>>)>>)
    [] e.k = "bitsg"    -> TPath(S.bits.lead, S.bits.segs, <<ETree(P, S, d, e.store), ETree(P, S, d, e.order)>>)
    [] e.k = "order"    -> TPath(FALSE, <<S.root, "bitvec", "order", e.name>>, <<>>)
    [] e.k = "adt"      -> LET dd == DefOf(P, e.name)
                               live == SelectSeq([i \in DOMAIN dd.params |-> i], LAMBDA i : ~dd.params[i].skipped)
                               args == [k \in DOMAIN live |-> ETree(P, S, d, e.args[live[k]])]
                               si == SubFor(S, dd.mod \o <<dd.ident>>)
                           IN IF si > 0 THEN ApplySub(S.subs[si], args)          \* substituted paths: C07
                              ELSE TPath(FALSE, <<S.root>> \o dd.mod \o <<dd.ident>>, args)
    [] OTHER            -> [k |-> "other", text |-> "unsupported"]

RECURSIVE MentionsBox(_)
MentionsBox(e) == e.k = "box" \/ \E q \in SubExprs(e) : q.k = "box"

RECURSIVE ParamsIn(_)
ParamsIn(e) == (IF e.k = "param" THEN {e.name} ELSE {}) \cup UNION {ParamsIn(q) : q \in SubExprs(e) \ {e}}

\* one field: compact attribute or Compact<..> type => flag + inner type; Box flag iff the declared type mentions Box and the field is not compact
EField(P, S, d, f, vis) ==
  LET top == IF f.ty.k \in {"box", "cow"} THEN f.ty.of ELSE f.ty     \* one transparent layer at the top is what the wire form erases
      RECURSIVE Strip(_)
      Strip(e) == IF e.k \in {"box", "cow"} THEN Strip(e.of) ELSE e
      core == Strip(f.ty)
      isCompact == f.compact \/ core.k = "compact"
      inner == IF core.k = "compact" THEN core.of ELSE core
      t == ETree(P, S, d, inner)
  IN [name |-> f.name, vis |-> vis, ty |-> IF MentionsBox(f.ty) /\ ~isCompact THEN BoxTree(S, t) ELSE t,     \* a compact position is never boxed
      compact |-> isCompact /\ S.codec, skip |-> FALSE, attrs |-> <<>>]

RealSrcFields(fs) == SelectSeq(fs, LAMBDA f : f.ty.k # "phantom")
UsedParams(fs) == UNION {ParamsIn(fs[i].ty) : i \in DOMAIN RealSrcFields(fs)}

ExpectedItem(P, S, d) ==
  LET generics == LiveGenerics(d)
      allFields == IF d.kind = "struct" THEN d.fields ELSE FlattenSeq([v \in DOMAIN d.variants |-> d.variants[v].fields])
      used == UNION {ParamsIn(f.ty) : f \in RangeOf(RealSrcFields(allFields))}
      unusedNames == SelectSeq([i \in DOMAIN d.params |-> d.params[i]], LAMBDA p : ~p.skipped /\ p.name \notin used)
      un == [i \in DOMAIN unusedNames |-> GenericName(d, unusedNames[i].name)]
      marker == PhantomTree(un)
      StyleOf(fs) == IF Len(fs) = 0 THEN "unit" ELSE IF fs[1].name = "" THEN "unnamed" ELSE "named"
  IN
  IF d.kind = "struct" THEN
     LET real == RealSrcFields(d.fields)
         efs == [i \in DOMAIN real |-> EField(P, S, d, real[i], TRUE)]
         st == StyleOf(real)
         fs == IF Len(un) = 0 THEN efs
               ELSE IF st = "named" THEN Append(efs, [name |-> "__ignore", vis |-> TRUE, ty |-> marker, compact |-> FALSE, skip |-> S.codec, attrs |-> <<>>])
               ELSE IF st = "unnamed" THEN Append(efs, [name |-> "", vis |-> TRUE, ty |-> marker, compact |-> FALSE, skip |-> S.codec, attrs |-> <<>>])
               ELSE <<[name |-> "", vis |-> TRUE, ty |-> marker, compact |-> FALSE, skip |-> FALSE, attrs |-> <<>>]>>
     IN [kind |-> "struct", name |-> d.ident, generics |-> generics, style |-> IF st = "unit" /\ Len(un) > 0 THEN "unnamed" ELSE st,
         fields |-> fs, variants |-> <<>>]
  ELSE
     LET vs == [v \in DOMAIN d.variants |->
                  LET real == RealSrcFields(d.variants[v].fields) IN
                  [name |-> d.variants[v].name, index |-> IF S.codec THEN d.variants[v].index ELSE -1, style |-> StyleOf(real),
                   fields |-> [i \in DOMAIN real |-> EField(P, S, d, real[i], FALSE)]]]
         vs2 == IF Len(un) = 0 THEN vs
                ELSE Append(vs, [name |-> "__Ignore", index |-> -1, style |-> "unnamed",
                                 fields |-> <<[name |-> "", vis |-> FALSE, ty |-> marker, compact |-> FALSE, skip |-> FALSE, attrs |-> <<>>]>>])
     IN [kind |-> "enum", name |-> d.ident, generics |-> generics, style |-> "", fields |-> <<>>, variants |-> vs2]

\* comparison of a projected (or model) item with the expected one on the clauses C05 speaks about
FieldAgrees(x, o) == x.name = o.name /\ x.ty = o.ty /\ x.compact = o.compact /\ x.skip = o.skip
FieldsAgree(xs, os) == Len(xs) = Len(os) /\ \A i \in DOMAIN xs : FieldAgrees(xs[i], os[i])
ItemAgrees(x, o) ==
  /\ x.kind = o.kind /\ x.name = o.name /\ x.generics = o.generics /\ x.style = o.style
  /\ FieldsAgree(x.fields, o.fields)
  /\ Len(x.variants) = Len(o.variants)
  /\ \A v \in DOMAIN x.variants : /\ x.variants[v].name = o.variants[v].name /\ x.variants[v].index = o.variants[v].index
                                  /\ x.variants[v].style = o.variants[v].style
                                  /\ FieldsAgree(x.variants[v].fields, o.variants[v].fields)

(* ------------------------------ C08: derives and attributes ------------------------------ *)
\* root-relative items mentioned in the fields of an item (bit-order marker types are substituted and do not count)
RECURSIVE MentionedIn(_, _)
MentionedIn(t, rootname) ==
  CASE t.k = "path" -> (IF ~t.lead /\ Len(t.segs) >= 2 /\ t.segs[1] = rootname THEN {t.segs} ELSE {}) \cup UNION {MentionedIn(t.args[i], rootname) : i \in DOMAIN t.args}
    [] t.k = "qpath" -> UNION {UNION {MentionedIn(t.segargs[sg][i], rootname) : i \in DOMAIN t.segargs[sg]} : sg \in DOMAIN t.segargs}
    [] t.k = "tup"  -> UNION {MentionedIn(t.elems[i], rootname) : i \in DOMAIN t.elems}
    [] t.k = "arr"  -> MentionedIn(t.of, rootname)
    [] OTHER -> {}
ItemMentions(it, rootname) == UNION {MentionedIn(ItemFieldTys(it)[i], rootname) : i \in DOMAIN ItemFieldTys(it)}
RECURSIVE ClosureM(_, _, _)
ClosureM(Root_, frontier, seen) ==
  IF frontier = {} THEN seen
  ELSE LET nxt == (UNION {LET it == FindItem(Root_, p) IN IF it.kind = "none" THEN {} ELSE ItemMentions(it, Root_.name) : p \in frontier}) \ seen
       IN ClosureM(Root_, nxt, seen \cup nxt)
\* must: closure over the generated module from the root item; may: registry reachability from any id carrying the root path
MustRoots(S, Root_, path) == {r \in RecRoots(S) : LET rp == <<Root_.name>> \o RootSegs(S, r) IN <<Root_.name>> \o path \in ClosureM(Root_, {rp}, {rp}) /\ FindItem(Root_, rp).kind # "none"}
MayRoots(reg, S, path) == {r \in RecRoots(S) : \E ir \in {i \in Ids(reg) : Len(Ty(reg, i).path) > 0 /\ PathStr(Ty(reg, i).path) = r} :
                                                 \E ip \in IdsOfPath(reg, path) : ip \in Reach(reg, ir)}
\* must: the registry says so - the struct's single field is (a Box / Cow of) an unsigned integer primitive, not a Compact<..> type
CompactAsMust(reg, S, path, it) ==
  /\ S.has_compact_as /\ it.kind = "struct" /\ Len(RealFields(it.fields)) = 1
  \* the generated field is the integer itself (a generic newtype's field is a parameter, not an integer)
  /\ Unbox(S, RealFields(it.fields)[1].ty) \in {PrimTree(S, p) : p \in UnsignedPrims}
  /\ \A id \in IdsOfPath(reg, path) :
        LET e == Ty(reg, id) IN
        e.def.k = "comp" /\ Len(e.def.fields) = 1
        /\ LET fid == UnCow(reg, e.def.fields[1].ty) IN HasId(reg, fid) /\ Ty(reg, fid).def.k = "prim" /\ Ty(reg, fid).def.p \in UnsignedPrims
  /\ IdsOfPath(reg, path) # {}
CompactAsMay(S, it) == S.has_compact_as /\ it.kind = "struct" /\ Len(RealFields(it.fields)) = 1
                       /\ Unbox(S, RealFields(it.fields)[1].ty) \in {PrimTree(S, p) : p \in UnsignedPrims}
C08_ItemOK(reg, S, Root_, path, derives, attrs, it) ==
  LET ps == PathStr(path)
      \* (after the repair of D18 every registry type that carries the root path is a root: must and may coincide for the recursive part)
      mustD == GlobalDerives(S) \cup SpecificDerives(S, ps) \cup UNION {RecDerives(S, r) : r \in MayRoots(reg, S, path)}
               \cup (IF CompactAsMust(reg, S, path, it) THEN {CompactAsStr(S)} ELSE {})
      mayD == GlobalDerives(S) \cup SpecificDerives(S, ps) \cup UNION {RecDerives(S, r) : r \in MayRoots(reg, S, path)}
              \cup (IF CompactAsMay(S, it) THEN {CompactAsStr(S)} ELSE {})
      mustA == GlobalAttrs(S) \cup SpecificAttrs(S, ps) \cup UNION {RecAttrs(S, r) : r \in MayRoots(reg, S, path)}
      mayA == GlobalAttrs(S) \cup SpecificAttrs(S, ps) \cup UNION {RecAttrs(S, r) : r \in MayRoots(reg, S, path)}
  IN mustD \subseteq derives /\ derives \subseteq mayD /\ mustA \subseteq attrs /\ attrs \subseteq mayA

\* the definitions C05 speaks about in a program: instantiated, no associated-type projections
C05Defs(P, roots) == {d \in {DefOf(P, a.name) : a \in Insts(P, roots)} : ~HasAssoc(d)}
=================================================================================
