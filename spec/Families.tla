-------------------------------- MODULE Families --------------------------------
(* Generator families (DESIGN.md 2.4): sets of source programs enumerated by TLC.  Every  *)
(* member is a record [fam, prog, roots] from which ScaleInfo.Register derives a          *)
(* well-formed registry; the program is the ground truth for "same definition",           *)
(* coincidence-freedom (CF1-CF3) and generic recovery.                                    *)
EXTENDS ScaleInfo

Mod == <<"m">>
u8 == P_Prim("u8")     u16 == P_Prim("u16")   u32 == P_Prim("u32")   u64 == P_Prim("u64")
u128 == P_Prim("u128") i8 == P_Prim("i8")     i16 == P_Prim("i16")   i32 == P_Prim("i32")
i64 == P_Prim("i64")   i128 == P_Prim("i128") bool == P_Prim("bool") char == P_Prim("char")
str == P_Prim("str")   unit == P_Tup(<<>>)
T == P_Param("T")      U == P_Param("U")
A0(n) == P_Adt(n, <<>>)

PrimLeaves == {u8, u16, u32, u64, u128, i8, i16, i32, i64, i128, bool, char, str}
UnsignedLeaves == {u8, u16, u32, u64, u128}

(* helper definitions available to every G1a program *)
UserU == Struct("U", Mod, <<>>, <<SField("x", u8)>>)
UserE == Enum("E", Mod \o <<"inner">>, <<>>, <<Variant("A", 0, <<>>), Variant("B", 4, <<SField("", u16)>>)>>)
UserG == Struct("G", Mod, <<Param("T")>>, <<SField("v", T), SField("w", P_Vec(T))>>)
UserW == Struct("W", Mod, <<>>, <<SField("", u32)>>)          \* single-field unsigned wrapper
Helpers == <<UserU, UserE, UserG, UserW>>

Leaves0 == PrimLeaves \cup {unit, P_NZ("u8"), P_NZ("i32"), P_NZ("u128"), P_Dur, A0("U"), A0("E"), A0("W"), P_Adt("G", <<u8>>)}
           \cup {P_Bits(s, o) : s \in {"u8", "u16", "u32", "u64"}, o \in {"Lsb0", "Msb0"}}
LeavesR == {u8, u32, bool, str, unit, A0("U")}

\* every constructor applied to e (compact only where scale-info/parity-scale-codec allow it)
Wrap(e) == {P_Vec(e), P_VecDeque(e), P_Arr(e, 2), P_Arr(e, 0), P_Tup(<<e>>), P_Tup(<<e, u8>>), P_Tup(<<bool, e, e>>), P_Opt(e), P_Res(e, bool), P_Res(u8, e),
            P_Box(e), P_Cow(e), P_BTreeMap(u8, e), P_BTreeMap(e, bool), P_BTreeSet(e), P_Heap(e), P_Range(e), P_RangeI(e),
            P_Adt("G", <<e>>)}
           \cup (IF e \in UnsignedLeaves \/ e = A0("W") THEN {P_Compact(e)} ELSE {})

Exprs1 == Leaves0 \cup UNION {Wrap(e) : e \in Leaves0}
Exprs2 == UNION {Wrap(e2) : e2 \in UNION {Wrap(e) : e \in LeavesR}}

\* compact attribute positions: the field type itself must be compactable
Compactable(e) == e \in UnsignedLeaves \/ e = A0("W")

\* NOTE: the families take a dummy argument so that TLC does not evaluate all of them eagerly at start-up
(* G1a: one definition S with one field of type e, in four syntactic positions *)
Shapes == {"named", "unnamed", "vnamed", "vunnamed"}
G1aDef(e, shape, compact) ==
  LET fld(n) == IF compact THEN CField(n, e) ELSE SField(n, e) IN
  CASE shape = "named"    -> Struct("S", Mod, <<>>, <<SField("pre", bool), fld("f")>>)
    [] shape = "unnamed"  -> Struct("S", Mod, <<>>, <<fld("")>>)
    [] shape = "vnamed"   -> Enum("S", Mod, <<>>, <<Variant("V0", 0, <<>>), Variant("V1", 3, <<fld("f"), SField("g", u8)>>)>>)
    [] shape = "vunnamed" -> Enum("S", Mod, <<>>, <<Variant("V1", 1, <<fld("")>>)>>)
G1aCase(e, shape, compact) ==
  [fam |-> "G1a", prog |-> Program(<<G1aDef(e, shape, compact)>> \o Helpers, <<>>), roots |-> <<A0("S")>>]

G1a_1(z) == {G1aCase(e, sh, FALSE) : e \in Exprs1, sh \in Shapes}
         \cup {G1aCase(e, sh, TRUE) : e \in {x \in Exprs1 : Compactable(x)}, sh \in Shapes}
G1a_2(z) == {G1aCase(e, sh, FALSE) : e \in Exprs2, sh \in {"named", "vunnamed"}}

(* G1b: one generic definition D<T,U> with two fields, two instantiations used by a root *)
FieldExprsB == {T, U, u8, P_Vec(T), P_Opt(U), P_Tup(<<T, U>>), P_Arr(T, 2), P_Box(T), P_Vec(P_Opt(T)), P_Phantom(T), P_Phantom(U),
                P_BTreeMap(T, U), P_Adt("G", <<T>>), P_Res(T, U), P_Compact(u32), P_Vec(u16), P_Cow(T), P_Compact(T), P_Vec(P_Compact(U)),
                P_Tup(<<P_Vec(T), u32>>), P_Vec(P_Tup(<<u8, P_Opt(U)>>)), P_Tup(<<u64, P_Arr(T, 2)>>)}
ArgPairs == {<<u8, bool>>, <<u16, u8>>, <<bool, bool>>, <<P_Vec(u8), u32>>, <<A0("U"), str>>}
G1bDef(e1, e2, kind) ==
  IF kind = "struct" THEN Struct("D", Mod, <<Param("T"), Param("U")>>, <<SField("a", e1), SField("b", e2)>>)
  ELSE Enum("D", Mod, <<Param("T"), Param("U")>>, <<Variant("X", 0, <<SField("", e1)>>), Variant("Y", 1, <<SField("p", e2), SField("q", e1)>>)>>)
G1bCase(e1, e2, kind, i1, i2) ==
  [fam |-> "G1b",
   prog |-> Program(<<Struct("R", Mod, <<>>, <<SField("x", P_Adt("D", i1)), SField("y", P_Adt("D", i2))>>), G1bDef(e1, e2, kind)>> \o Helpers, <<>>),
   roots |-> <<A0("R")>>]
G1bK(k) == {G1bCase(e1, e2, k, i1, i2) : e1 \in FieldExprsB, e2 \in FieldExprsB, i1 \in ArgPairs, i2 \in ArgPairs}
G1b(z) == G1bK("struct") \cup G1bK("enum")

(* G1d: as G1b, but the root mentions the second argument of the first instantiation before the instantiation itself, so the *)
(* argument ids of the kept instantiation are not ascending (parameter order must follow the declaration, not the ids)      *)
ArgPairsD == {<<u16, u8>>, <<P_Vec(u8), u32>>, <<str, A0("U")>>, <<P_Cow(str), u8>>}
G1dCase(e1, e2, i1, i2) ==
  [fam |-> "G1d",
   prog |-> Program(<<Struct("R", Mod, <<>>, <<SField("pre", i1[2]), SField("x", P_Adt("D", i1)), SField("y", P_Adt("D", i2))>>), G1bDef(e1, e2, "struct")>> \o Helpers, <<>>),
   roots |-> <<A0("R")>>]
G1d(z) == {G1dCase(e1, e2, i1, i2) : e1 \in FieldExprsB, e2 \in FieldExprsB, i1 \in ArgPairsD, i2 \in {<<u8, bool>>, <<u16, u8>>}}

(* G1e: bit sequences whose store and order types are parameters of the enclosing definition *)
BitsT == P_BitsG(T, U)
FieldExprsE1 == {BitsT, P_Vec(BitsT), P_Opt(BitsT), P_BitsG(T, P_Order("Lsb0")), P_BitsG(u8, U), P_Tup(<<BitsT, u8>>)}
FieldExprsE2 == {u32, T, P_Phantom(U), P_Vec(T)}
ArgPairsE == {<<u8, P_Order("Lsb0")>>, <<u16, P_Order("Msb0")>>, <<u8, P_Order("Msb0")>>}
G1e(z) == {[fam |-> "G1e",
            prog |-> Program(<<Struct("R", Mod, <<>>, <<SField("x", P_Adt("D", i1)), SField("y", P_Adt("D", i2))>>), G1bDef(e1, e2, k)>> \o Helpers, <<>>),
            roots |-> <<A0("R")>>] : e1 \in FieldExprsE1, e2 \in FieldExprsE2, k \in {"struct", "enum"}, i1 \in ArgPairsE, i2 \in ArgPairsE}

(* G1f: a `#[codec(compact)]` field whose declared type is a bare parameter (registry: Compact<T>, type name "T") *)
ArgPairsF == {<<u32, bool>>, <<u64, u8>>, <<u8, u16>>}
G1fDef(e2, kind) ==
  IF kind = "struct" THEN Struct("D", Mod, <<Param("T"), Param("U")>>, <<CField("a", T), SField("b", e2)>>)
  ELSE Enum("D", Mod, <<Param("T"), Param("U")>>, <<Variant("X", 0, <<CField("", T)>>), Variant("Y", 1, <<SField("p", e2), CField("q", T)>>)>>)
G1f(z) == {[fam |-> "G1f",
            prog |-> Program(<<Struct("R", Mod, <<>>, <<SField("x", P_Adt("D", i1)), SField("y", P_Adt("D", i2))>>), G1fDef(e2, k)>> \o Helpers, <<>>),
            roots |-> <<A0("R")>>] : e2 \in {U, P_Vec(T), u8, P_Opt(U), P_Tup(<<T, U>>)}, k \in {"struct", "enum"}, i1 \in ArgPairsF, i2 \in ArgPairsF}

(* G1g: three and four parameters with used and unused ones interleaved (the marker names exactly the unused ones, in order) *)
A_ == P_Param("A")   B_ == P_Param("B")   C_ == P_Param("C")   D_ == P_Param("D")
G1gDefs == {
  Struct("D", Mod, <<Param("A"), Param("B"), Param("C")>>, <<SField("from", P_Phantom(A_)), SField("value", B_), SField("to", P_Phantom(C_))>>),
  Struct("D", Mod, <<Param("A"), Param("B"), Param("C")>>, <<SField("from", P_Phantom(A_)), SField("value", P_Vec(B_)), SField("to", P_Phantom(C_))>>),
  Struct("D", Mod, <<Param("A"), Param("B"), Param("C")>>, <<SField("a", A_), SField("m", P_Phantom(B_)), SField("c", P_Opt(C_))>>),
  Struct("D", Mod, <<Param("A"), Param("B"), Param("C")>>, <<SField("", P_Phantom(A_)), SField("", P_Phantom(B_)), SField("", C_)>>),
  Struct("D", Mod, <<Param("A"), Param("B"), Param("C")>>, <<SField("m", P_Phantom(P_Tup(<<A_, C_>>))), SField("b", B_)>>),
  Enum("D", Mod, <<Param("A"), Param("B"), Param("C")>>, <<Variant("X", 0, <<SField("", P_Phantom(A_))>>), Variant("Y", 1, <<SField("v", B_)>>), Variant("Z", 2, <<SField("", P_Phantom(C_))>>)>>) }
G1g(z) == {[fam |-> "G1g",
            prog |-> Program(<<Struct("R", Mod, <<>>, <<SField("x", P_Adt("D", i1)), SField("y", P_Adt("D", i2))>>), d>> \o Helpers, <<>>),
            roots |-> <<A0("R")>>] : d \in G1gDefs, i1 \in {<<u8, u16, bool>>, <<bool, u8, u16>>}, i2 \in {<<u8, u16, bool>>, <<u32, str, u64>>}}

(* G1c: definitions in nested modules referring to each other, recursion through Box/Vec/Option<Box> *)
RecKinds == {"box", "vec", "optbox", "mutual", "generic", "posbox", "shadow"}
G1cCase(rk, docs) ==
  LET D(n) == IF docs THEN <<"doc of " \o n, "", " second paragraph after a blank line">> ELSE <<>>
      defs ==
        CASE rk = "box"    -> <<[Enum("L", Mod, <<>>, <<Variant("Nil", 0, <<>>), Variant("Cons", 1, <<SField("", u8), SField("", P_Box(A0("L")))>>)>>) EXCEPT !.docs = D("L")]>>
          [] rk = "vec"    -> <<[Struct("L", Mod \o <<"a", "b">>, <<>>, <<SField("kids", P_Vec(A0("L"))), SField("n", A0("N"))>>) EXCEPT !.docs = D("L")],
                                Struct("N", Mod \o <<"a">>, <<>>, <<SField("", u16)>>)>>
          [] rk = "optbox" -> <<Struct("L", Mod, <<>>, <<SField("v", u8), SField("next", P_Opt(P_Box(A0("L"))))>>)>>
          [] rk = "mutual" -> <<Struct("L", Mod \o <<"x">>, <<>>, <<SField("b", P_Vec(A0("N")))>>),
                                [Enum("N", Mod \o <<"y">>, <<>>, <<Variant("Leaf", 2, <<>>), Variant("Node", 5, <<SField("a", P_Box(A0("L")))>>)>>) EXCEPT !.docs = D("N")]>>
          [] rk = "posbox" -> <<[Enum("L", Mod, <<>>, <<Variant("Nil", 0, <<>>), [Variant("Cons", 1, <<SField("", u32), SField("", P_Opt(P_Box(A0("L"))))>>) EXCEPT !.docs = D("Cons")]>>) EXCEPT !.docs = D("L")],
                                Struct("Chain", Mod, <<>>, <<SField("", u8), SField("", P_Opt(P_Box(A0("Chain")))), SField("", P_Vec(P_Box(A0("L"))))>>),
                                Struct("Hold", Mod, <<>>, <<SField("c", A0("Chain")), SField("t", P_Tup(<<u8, P_Opt(P_Box(A0("Hold")))>>))>>)>>
          \* user definitions in modules whose names coincide with prelude entries, used next to the prelude types themselves
          [] rk = "shadow" -> <<Struct("L", Mod, <<>>, <<SField("a", P_Adt("Cow", <<u32>>)), SField("b", P_Adt("Option", <<u8>>)), SField("c", P_Opt(u8)),
                                                         SField("d", P_Adt("Result", <<u16>>)), SField("e", A0("Vec")), SField("f", P_Adt("Cow", <<bool>>)),
                                                         SField("g", P_Cow(u8)), SField("h", A0("String")), SField("i", A0("Duration")), SField("j", P_Vec(P_Adt("Range", <<u8>>))),
                                                         SField("k", P_Res(u8, P_Adt("Option", <<bool>>))), SField("l", P_Adt("BTreeMap", <<u8>>))>>),
                                Struct("Cow", Mod \o <<"farm">>, <<Param("T")>>, <<SField("milk", T), SField("age", u8)>>),
                                Enum("Option", Mod, <<Param("T")>>, <<Variant("Done", 0, <<SField("", T)>>), Variant("Pending", 1, <<>>)>>),
                                Enum("Result", Mod \o <<"outcome">>, <<Param("T")>>, <<Variant("Fine", 0, <<SField("", T)>>), Variant("Bad", 1, <<SField("code", u8)>>)>>),
                                Struct("Vec", Mod, <<>>, <<SField("len", u8)>>),
                                Struct("String", Mod \o <<"text">>, <<>>, <<SField("", P_Vec(u16))>>),
                                Struct("Duration", Mod, <<>>, <<SField("ticks", u64)>>),
                                Struct("Range", Mod, <<Param("T")>>, <<SField("lo", T), SField("hi", T), SField("step", T)>>),
                                Struct("BTreeMap", Mod \o <<"coll">>, <<Param("K")>>, <<SField("keys", P_Vec(P_Param("K")))>>)>>
          [] rk = "generic" -> <<Struct("L", Mod, <<>>, <<SField("a", P_Adt("Q", <<u8>>)), SField("b", P_Adt("Q", <<bool>>))>>),
                                 Struct("Q", Mod, <<Param("T")>>, <<SField("v", T), SField("next", P_Vec(P_Adt("Q", <<T>>)))>>)>>
  IN [fam |-> "G1c", prog |-> Program(defs \o Helpers, <<>>), roots |-> IF rk = "posbox" THEN <<A0("L"), A0("Hold")>> ELSE <<A0("L")>>]
G1c(z) == {G1cCase(rk, d) : rk \in RecKinds, d \in BOOLEAN}

NoProg == [defs |-> <<>>, cfgs |-> <<>>]
(* H1: hand-built registries as the repository's own tests build them - a namespaced definition that is not a struct or *)
(* enum (the generation loop's "builtin" outcome); outside the well-formedness rule R2, judged for C02 / C10 only        *)
H1Regs == {
  << Entry(0, <<"m", "S">>, <<>>, [k |-> "comp", fields |-> <<F("a", 1, "Alias"), F("b", 3, "Num")>>], <<>>),
     Entry(1, <<"m", "Alias">>, <<>>, [k |-> "seq", of |-> 2], <<>>),
     Entry(2, <<>>, <<>>, [k |-> "prim", p |-> "u8"], <<>>),
     Entry(3, <<"m", "n", "Num">>, <<>>, [k |-> "prim", p |-> "u64"], <<>>) >>,
  << Entry(0, <<"m", "T">>, <<>>, [k |-> "tup", elems |-> <<1, 1>>], <<>>),
     Entry(1, <<>>, <<>>, [k |-> "prim", p |-> "bool"], <<>>),
     Entry(2, <<"m", "E">>, <<>>, [k |-> "var", variants |-> <<[name |-> "V", index |-> 0, fields |-> <<F("", 0, "T")>>, docs |-> <<>>]>>], <<>>) >> }
H1(z) == {[fam |-> "H1", prog |-> NoProg, roots |-> <<>>, rawreg |-> r] : r \in H1Regs}

(* G13(n): every type graph over n nodes (plus one primitive): each node is a named struct with two fields, an unnamed   *)
(* tuple of two elements, a one-element tuple, or a sequence, pointing anywhere - under the well-formedness rule R8 (every *)
(* cycle passes through a named type and through a sequence).  This is the state space in which "the cache / recursion    *)
(* policy is correct for every visiting order" is a statement about all small graphs.                                     *)
PrimIdOf(n_) == n_
TargetsOf(n_) == 0..n_
NodeDefs(n_) == {[k |-> "comp", named |-> TRUE, a |-> x, b |-> y] : x \in TargetsOf(n_), y \in TargetsOf(n_)}
               \cup {[k |-> "tup", named |-> FALSE, a |-> x, b |-> y] : x \in TargetsOf(n_), y \in TargetsOf(n_)}
               \cup {[k |-> "tup1", named |-> FALSE, a |-> x, b |-> x] : x \in TargetsOf(n_)}
               \cup {[k |-> "seq", named |-> FALSE, a |-> x, b |-> x] : x \in TargetsOf(n_)}
MkEntry(i, d) ==
  CASE d.k = "comp" -> Entry(i, <<"g", "N" \o ToString(i)>>, <<>>, [k |-> "comp", fields |-> <<F("a", d.a, ""), F("b", d.b, "")>>], <<>>)
    [] d.k = "tup" -> Entry(i, <<>>, <<>>, [k |-> "tup", elems |-> <<d.a, d.b>>], <<>>)
    [] d.k = "tup1" -> Entry(i, <<>>, <<>>, [k |-> "tup", elems |-> <<d.a>>], <<>>)
    [] d.k = "seq" -> Entry(i, <<>>, <<>>, [k |-> "seq", of |-> d.a], <<>>)
MkReg(n_, f) == [i \in 1..n_ |-> MkEntry(i - 1, f[i])] \o <<Entry(PrimIdOf(n_), <<>>, <<>>, [k |-> "prim", p |-> "u8"], <<>>)>>
\* R8: removing the named types (resp. the sequences) leaves an acyclic graph
RECURSIVE ReachAvoid(_, _, _, _)
ReachAvoid(reg, frontier, seen, avoid) ==
  IF frontier = {} THEN seen
  ELSE LET nxt == ((UNION {DefRefs(Ty(reg, i).def) : i \in frontier}) \ avoid) \ seen IN ReachAvoid(reg, nxt, seen \cup nxt, avoid)
AcyclicAvoiding(reg, avoid) == \A i \in Ids(reg) \ avoid : i \notin ReachAvoid(reg, DefRefs(Ty(reg, i).def) \ avoid, DefRefs(Ty(reg, i).def) \ avoid, avoid)
R8(reg) == /\ AcyclicAvoiding(reg, {i \in Ids(reg) : Len(Ty(reg, i).path) > 0})
           /\ AcyclicAvoiding(reg, {i \in Ids(reg) : Ty(reg, i).def.k = "seq"})
G13(n_) == {[fam |-> "G13", prog |-> NoProg, roots |-> <<>>, rawreg |-> MkReg(n_, f)] : f \in {g \in [1..n_ -> NodeDefs(n_)] : R8(MkReg(n_, g))}}

(* G7: a substitutable generic Sub<A,B> (and the prelude BTreeMap) in every position: field, nested in *)
(* Vec/Option/tuple/array, argument of another generic, nested in itself, in variants, under a parent   *)
(* parameter, boxed; one position per program plus a combined one.                                       *)
SubE(x, y) == P_Adt("Sub", <<x, y>>)
SubDef == Struct("Sub", Mod \o <<"sub">>, <<Param("A"), Param("B")>>, <<SField("a", P_Param("A")), SField("b", P_Param("B"))>>)
SubPositions == {SubE(u8, bool), P_Vec(SubE(u8, bool)), P_Opt(SubE(u16, u8)), P_Tup(<<SubE(u8, bool), u8>>), P_Arr(SubE(u8, bool), 2),
                 P_Adt("G", <<SubE(u8, bool)>>), SubE(SubE(u8, bool), u16), P_BTreeMap(u8, SubE(u8, str)), P_Box(SubE(u8, bool)),
                 P_Adt("DP", <<bool>>), P_Tup(<<P_Adt("DP", <<bool>>), P_Adt("DP", <<u16>>)>>), P_Vec(P_Vec(SubE(unit, u8))),
                 P_Adt("DP2", <<bool, u16>>)}
DPDef == Struct("DP", Mod, <<Param("T")>>, <<SField("x", SubE(T, u8)), SField("y", P_Vec(SubE(u8, T))), SField("z", T)>>)
\* the substituted type under two parent parameters in swapped order, directly and nested
DP2Def == Struct("DP2", Mod, <<Param("T"), Param("U")>>, <<SField("pair", SubE(U, T)), SField("t", T), SField("n", SubE(P_Opt(U), u64))>>)
G7Case(e, shape) == [fam |-> "G7", prog |-> Program(<<G1aDef(e, shape, FALSE), SubDef, DPDef, DP2Def>> \o Helpers, <<>>), roots |-> <<A0("S")>>]
G7(z) == {G7Case(e, sh) : e \in SubPositions, sh \in {"named", "vunnamed"}}
         \cup {[fam |-> "G7", prog |-> Program(<<Struct("S", Mod, <<>>, <<SField("a", SubE(u8, bool)), SField("b", P_Vec(SubE(u16, u8))), SField("c", P_Adt("DP", <<u32>>)),
                                                                           SField("d", P_BTreeMap(u8, u8))>>), SubDef, DPDef>> \o Helpers, <<>>),
                 roots |-> <<A0("S"), SubE(u8, bool)>>]}

(* G8: type graphs for derive/attribute propagation: every structural edge kind (field, variant field, tuple, *)
(* array, sequence, compact wrapper, generic argument, phantom parameter, Option<Box<..>> cycles), several     *)
(* roots with overlapping reach, an unreachable type, a bit sequence whose order marker is substituted.        *)
G8Defs == <<
  Struct("R", Mod, <<>>, <<SField("a", A0("X")), SField("b", P_Tup(<<A0("Y"), P_Arr(A0("Z"), 2)>>)), SField("c", P_Vec(A0("W"))),
                           CField("d", A0("CW")), SField("e", P_Adt("G", <<A0("V")>>)), SField("f", P_Opt(P_Box(A0("R")))),
                           SField("g", P_Adt("PhT", <<A0("Q")>>)), SField("h", P_Bits("u8", "Lsb0"))>>),
  Struct("X", Mod \o <<"leaf">>, <<>>, <<SField("x", u8)>>),
  Struct("Y", Mod, <<>>, <<SField("", u16)>>),
  Enum("Z", Mod, <<>>, <<Variant("A", 0, <<>>), Variant("B", 1, <<SField("", A0("X"))>>)>>),
  Struct("W", Mod \o <<"deep", "er">>, <<>>, <<SField("w", P_Vec(A0("W"))), SField("back", P_Opt(P_Box(A0("R")))), SField("k", P_BTreeMap(u8, A0("K")))>>),
  Struct("CW", Mod, <<>>, <<SField("", u32)>>),
  Struct("V", Mod, <<>>, <<>>),
  Struct("Q", Mod, <<>>, <<SField("q", bool)>>),
  Struct("K", Mod, <<>>, <<SField("k", P_Compact(u64))>>),
  Struct("PhT", Mod, <<Param("T")>>, <<SField("n", u8), SField("p", P_Phantom(T))>>),
  Struct("Un", Mod, <<>>, <<SField("u", i8)>>) >> \o <<UserG>>
G8Prog == Program(G8Defs, <<>>)
G8Roots == {<<A0("R"), A0("Un")>>, <<A0("R"), P_Adt("G", <<A0("Q")>>), A0("W")>>, <<A0("Un"), A0("W")>>, <<A0("Z"), A0("Un"), P_Adt("G", <<A0("V")>>), P_Adt("G", <<A0("Q")>>)>>}
G8(z) == {[fam |-> "G8", prog |-> G8Prog, roots |-> r] : r \in G8Roots}
\* CompactAs eligibility: single-field wrappers over every primitive, named / unnamed / boxed / compact / two fields / enum
G8bDefs(p) == <<Struct("Wn", Mod, <<>>, <<SField("v", p)>>), Struct("Wu", Mod, <<>>, <<SField("", p)>>), Struct("Wb", Mod, <<>>, <<SField("v", P_Box(p))>>),
                Struct("W2", Mod, <<>>, <<SField("v", p), SField("w", p)>>), Struct("Wu2", Mod, <<>>, <<SField("", p), SField("", bool)>>),
                Enum("We", Mod, <<>>, <<Variant("A", 0, <<SField("", p)>>), Variant("P", 1, <<SField("", p), SField("", bool)>>), Variant("N", 2, <<SField("amount", p)>>)>>),
                Struct("Wg", Mod, <<Param("T")>>, <<SField("v", T)>>), Struct("Wph", Mod, <<Param("T")>>, <<SField("v", p), SField("m", P_Phantom(T))>>),
                Struct("Wcow", Mod, <<>>, <<SField("v", P_Cow(p))>>), Struct("Wgu", Mod, <<Param("T")>>, <<SField("", T)>>)>>
              \o (IF p \in UnsignedLeaves THEN <<Struct("Wc", Mod, <<>>, <<CField("v", p)>>), Struct("Wct", Mod, <<>>, <<SField("v", P_Compact(p))>>)>> ELSE <<>>)
G8b(z) == {[fam |-> "G8b", prog |-> Program(G8bDefs(p) \o <<Struct("Root", Mod, <<>>, [i \in DOMAIN G8bDefs(p) |->
                       SField("f" \o ToString(i), IF G8bDefs(p)[i].name \in {"Wg", "Wph", "Wgu"} THEN P_Adt(G8bDefs(p)[i].name, <<p>>) ELSE A0(G8bDefs(p)[i].name))]
                       \o <<SField("other", P_Adt("Wgu", <<IF p = bool THEN u64 ELSE bool>>))>>)>>, <<>>),
              roots |-> <<A0("Root")>>] : p \in PrimLeaves}

(* G2p: same-path families derived from programs: instantiation families (with and without id *)
(* coincidences), associated-type families (parameter skipped or not), version families (two   *)
(* unrelated definitions under one path, also differing in arity), optionally next to a        *)
(* pre-existing digit-suffixed name; every registration order of 2-3 members.                  *)
CfgC1 == [name |-> "C1", assoc |-> <<[name |-> "X", ty |-> u8], [name |-> "Y", ty |-> bool]>>]
CfgC2 == [name |-> "C2", assoc |-> <<[name |-> "X", ty |-> u16], [name |-> "Y", ty |-> bool]>>]
V(d) == Versioned(d, "Foo")
G2Defs == <<
  V(Struct("FooG", Mod, <<Param("T")>>, <<SField("a", T)>>)),
  V(Struct("FooC8", Mod, <<>>, <<SField("a", u8)>>)),
  V(Struct("FooC16", Mod, <<>>, <<SField("a", u16)>>)),
  V(Struct("FooA", Mod, <<Skipped("C")>>, <<SField("x", P_Adt("Bar", <<P_Assoc("C", "X")>>))>>)),
  V(Struct("FooA2", Mod, <<Param("C")>>, <<SField("x", P_Assoc("C", "X")), SField("y", P_Assoc("C", "Y"))>>)),
  V(Struct("FooX", Mod, <<>>, <<SField("x", P_Adt("Ph", <<A0("C1")>>)), SField("y", P_Adt("Qh", <<A0("C1")>>)), SField("z", P_Adt("Ph", <<A0("C1")>>))>>)),
  V(Struct("FooX2", Mod, <<>>, <<SField("x", P_Adt("Ph", <<A0("C2")>>)), SField("y", P_Adt("Qh", <<A0("C2")>>)), SField("z", P_Adt("Qh", <<A0("C2")>>))>>)),
  V(Enum("FooE", Mod, <<>>, <<Variant("A", 0, <<>>), Variant("B", 1, <<SField("", u8)>>)>>)),
  V(Enum("FooE2", Mod, <<>>, <<Variant("A", 0, <<>>), Variant("B", 1, <<SField("", u16)>>)>>)),
  V(Enum("FooE3", Mod, <<>>, <<Variant("A", 0, <<>>), Variant("C", 1, <<SField("", u8)>>)>>)),
  V(Enum("FooE4", Mod, <<>>, <<Variant("A", 0, <<>>), Variant("B", 1, <<SField("", u8)>>), Variant("C", 2, <<SField("", u32)>>)>>)),
  V(Struct("FooT", Mod, <<>>, <<SField("", u8)>>)),
  V(Struct("FooT2", Mod, <<>>, <<SField("", u8), SField("", u8)>>)),
  V(Struct("FooV", Mod, <<Param("T")>>, <<SField("a", T), SField("b", P_Vec(u32))>>)),
  V(Struct("FooG2", Mod, <<Param("T"), Param("U")>>, <<SField("a", T), SField("b", U)>>)),
  \* generics on nesting levels 1 and 3 (the level in between has none): indices of the generics stack are global
  V(Struct("FooO1", Mod, <<Param("T")>>, <<SField("t", T), SField("m", A0("MidA"))>>)),
  V(Struct("FooO2", Mod, <<Param("T")>>, <<SField("t", T), SField("m", A0("MidB"))>>)),
  Versioned(Struct("MidA", Mod, <<>>, <<SField("i", P_Adt("InnA", <<u16>>))>>), "Mid"),
  Versioned(Struct("MidB", Mod, <<>>, <<SField("i", P_Adt("InnB", <<u8>>))>>), "Mid"),
  Versioned(Struct("InnA", Mod, <<Param("U")>>, <<SField("x", P_Vec(U))>>), "Inn"),
  Versioned(Struct("InnB", Mod, <<Param("U")>>, <<SField("x", P_Vec(u32)), SField("p", P_Phantom(U))>>), "Inn"),
  V(Struct("FooN1", Mod, <<>>, <<SField("version", u8), SField("number", u16)>>)),
  V(Struct("FooN2", Mod, <<>>, <<SField("number", u16), SField("version", u8)>>)),
  V(Struct("FooP1", Mod, <<Param("T"), Param("U")>>, <<SField("", P_Vec(T)), SField("", P_Vec(U))>>)),
  V(Struct("FooP2", Mod, <<Param("T"), Param("U")>>, <<SField("", P_Vec(U)), SField("", P_Vec(T))>>)),
  V(Struct("FooR", Mod, <<>>, <<SField("next", P_Opt(P_Box(A0("FooR")))), SField("v", u8)>>)),
  V(Struct("FooR2", Mod, <<>>, <<SField("next", P_Opt(P_Box(A0("FooR2")))), SField("v", u16)>>)),
  V(Struct("FooA3", Mod, <<Param("C"), Param("U"), Param("W")>>, <<SField("f", P_Assoc("C", "X")), SField("g", U), SField("h", P_Param("W"))>>)),
  Struct("Bar", Mod, <<Param("T")>>, <<SField("v", T)>>),
  Struct("Ph", Mod, <<Skipped("C")>>, <<SField("v", u8)>>),
  Struct("Qh", Mod, <<Skipped("C")>>, <<SField("w", bool)>>),
  Struct("C1", Mod, <<>>, <<>>), Struct("C2", Mod, <<>>, <<>>),
  Struct("Foo1", Mod, <<>>, <<SField("a", bool)>>), Struct("Foo2", Mod, <<>>, <<SField("a", str)>>) >>
\* version members Foo{a: e} / Foo(e) / enum Foo{V(e)} for every small shape e
ShapePool == {u8, u16, P_Arr(u8, 2), P_Arr(u8, 3), P_Arr(u16, 2), P_Vec(u8), P_Vec(u16), P_Tup(<<u8, u16>>), P_Tup(<<u8, u8>>), P_Tup(<<u8>>),
              P_Opt(u8), P_Opt(u16), P_Compact(u8), P_Compact(u16), P_Adt("Bar", <<u8>>), P_Adt("Bar", <<u16>>), P_Bits("u8", "Lsb0"), P_Bits("u8", "Msb0"),
              P_Bits("u16", "Lsb0"), P_BTreeMap(u8, u16), P_BTreeMap(u8, u8), P_Res(u8, u16), P_Res(u16, u8), str, bool, P_Box(u8), P_Vec(P_Vec(u8)),
              P_Arr(P_Arr(u8, 2), 2), P_Arr(P_Arr(u8, 3), 2), P_Range(u8), P_RangeI(u8), P_NZ("u8"), P_NZ("u16")}
RECURSIVE ShapeName(_)
ShapeName(e) == Render(e)
ShapeDef(e, form) ==
  LET n == "FooS_" \o form \o "_" \o Render(e) IN
  V(CASE form = "n" -> Struct(n, Mod, <<>>, <<SField("a", e)>>)
      [] form = "u" -> Struct(n, Mod, <<>>, <<SField("", e)>>)
      [] form = "c" -> Struct(n, Mod, <<>>, <<CField("a", e)>>)
      [] form = "v" -> Enum(n, Mod, <<>>, <<Variant("A", 0, <<>>), Variant("B", 1, <<SField("", e)>>)>>))
ShapeProg(e1, f1, e2, f2) == Program(<<ShapeDef(e1, f1), ShapeDef(e2, f2), Struct("Bar", Mod, <<Param("T")>>, <<SField("v", T)>>)>>, <<>>)
G2Shapes(z) == {[fam |-> "G2s", prog |-> ShapeProg(q[1], f, q[2], f), roots |-> <<A0("FooS_" \o f \o "_" \o Render(q[1])), A0("FooS_" \o f \o "_" \o Render(q[2]))>>]
                  : q \in {x \in ShapePool \X ShapePool : x[1] # x[2]}, f \in {"n", "v"}}
               \cup {[fam |-> "G2s", prog |-> ShapeProg(e, "n", e, "c"), roots |-> <<A0("FooS_n_" \o Render(e)), A0("FooS_c_" \o Render(e))>>] : e \in {u8, u16}}
               \cup {[fam |-> "G2s", prog |-> ShapeProg(e, "n", e, "u"), roots |-> <<A0("FooS_n_" \o Render(e)), A0("FooS_u_" \o Render(e))>>] : e \in {u8, P_Vec(u8)}}

\* families whose shared name already ends in a digit (new names are old name + 1..k all the same)
DigitDefs == <<Versioned(Struct("SlotA", Mod, <<>>, <<SField("a", u8)>>), "Slot2"), Versioned(Struct("SlotB", Mod, <<>>, <<SField("a", u16)>>), "Slot2"),
               Versioned(Struct("SlotC", Mod, <<>>, <<SField("a", bool)>>), "Slot2"), Versioned(Struct("SlotD", Mod, <<>>, <<SField("a", u8)>>), "Slot2"),
               Versioned(Struct("VerA", Mod \o <<"v">>, <<>>, <<SField("", u8)>>), "Version1"), Versioned(Struct("VerB", Mod \o <<"v">>, <<>>, <<SField("", str)>>), "Version1"),
               Struct("Slot21", Mod, <<>>, <<SField("z", i8)>>)>>
DigitProg == Program(DigitDefs, <<>>)
G2Digits(z) == {[fam |-> "G2d", prog |-> DigitProg, roots |-> r] :
                  r \in {<<A0("SlotA"), A0("SlotB"), A0("SlotC")>>, <<A0("SlotB"), A0("SlotA"), A0("SlotD"), A0("SlotC")>>, <<A0("VerA"), A0("SlotA"), A0("VerB"), A0("SlotC")>>,
                          <<A0("VerB"), A0("VerA")>>, <<A0("SlotA"), A0("SlotB"), A0("Slot21")>>}}

G2Prog == Program(G2Defs, <<CfgC1, CfgC2>>)
G2Members == {P_Adt("FooG", <<u8>>), P_Adt("FooG", <<u16>>), P_Adt("FooG", <<bool>>), A0("FooC8"), A0("FooC16"),
              P_Adt("FooA", <<A0("C1")>>), P_Adt("FooA", <<A0("C2")>>), P_Adt("FooA2", <<A0("C1")>>), P_Adt("FooA2", <<A0("C2")>>),
              A0("FooX"), A0("FooX2"), A0("FooE"), A0("FooE2"), A0("FooE3"), A0("FooE4"), A0("FooT"), A0("FooT2"),
              P_Adt("FooV", <<u32>>), P_Adt("FooV", <<u8>>), P_Adt("FooG2", <<u8, bool>>), P_Adt("FooP1", <<u8, bool>>), P_Adt("FooP2", <<u8, bool>>), A0("FooN1"), A0("FooN2"), P_Adt("FooO1", <<u32>>), P_Adt("FooO2", <<u32>>), A0("FooR"), A0("FooR2"),
              P_Adt("FooA3", <<A0("C1"), u8, u16>>), P_Adt("FooA3", <<A0("C2"), u8, u16>>)}
\* the (large) program is referenced by name so that the case records stay small: see ProgOf
G2Case(roots) == [fam |-> "G2p", pid |-> "G2", prog |-> NoProg, roots |-> roots]
ProgOf(c) == IF c.fam = "G2p" THEN G2Prog ELSE c.prog
RegOf(c) == IF c.fam \in {"H1", "G13"} THEN c.rawreg ELSE Register(ProgOf(c), c.roots).reg
G2MembersSmall == {P_Adt("FooG", <<u8>>), P_Adt("FooG", <<u16>>), A0("FooC8"), A0("FooC16"), P_Adt("FooA", <<A0("C1")>>), P_Adt("FooA", <<A0("C2")>>),
                   P_Adt("FooV", <<u32>>), P_Adt("FooV", <<u8>>), A0("FooE"), A0("FooT")}
TriplesSmall(z) == {q \in G2MembersSmall \X G2MembersSmall \X G2MembersSmall : q[1] # q[2] /\ q[1] # q[3] /\ q[2] # q[3]}
G2p_3s(z) == {G2Case(<<q[1], q[2], q[3]>>) : q \in TriplesSmall(z)} \cup {G2Case(<<q[1], q[2], q[3], A0("Foo1")>>) : q \in TriplesSmall(z)}
Pairs(z) == {q \in G2Members \X G2Members : q[1] # q[2]}
Triples(z) == {q \in G2Members \X G2Members \X G2Members : q[1] # q[2] /\ q[1] # q[3] /\ q[2] # q[3]}
G2p_2(z) == {G2Case(<<q[1], q[2]>>) : q \in Pairs(z)}
         \cup {G2Case(<<A0("Foo1"), q[1], q[2]>>) : q \in Pairs(z)}
         \cup {G2Case(<<q[1], q[2], A0("Foo2"), A0("Foo1")>>) : q \in Pairs(z)}
G2p_3(z) == {G2Case(<<q[1], q[2], q[3]>>) : q \in Triples(z)}
         \cup {G2Case(<<q[1], q[2], q[3], A0("Foo1")>>) : q \in Triples(z)}

(* ---- coincidence-freedom (DESIGN.md 3.4), evaluated on the source program ---- *)
RECURSIVE SubExprs(_)
SubExprs(e) ==   \* proper sub-expressions (positions) of e
  LET kids == CASE e.k \in {"vec", "vecdeque", "opt", "box", "cow", "compact", "btset", "heap", "range", "rangei", "phantom", "arr"} -> {e.of}
                [] e.k = "tup" -> RangeOf(e.elems)
                [] e.k = "res" -> {e.ok, e.err}
                [] e.k = "btmap" -> {e.key, e.val}
                [] e.k = "adt" -> RangeOf(e.args)
                [] e.k = "bitsg" -> {e.store, e.order}
                [] OTHER -> {}
  IN kids \cup UNION {SubExprs(x) : x \in kids}

\* every instantiation (definition name, closed args) reachable from the roots
RECURSIVE InstsOf(_, _, _)
InstsOf(P, e, seen) ==
  LET subs == {e} \cup SubExprs(e)
      adts == {x \in subs : x.k = "adt"} \ seen
      seen2 == seen \cup adts
      inner == UNION {
        LET d == DefOf(P, a.name)
            env == [i \in DOMAIN d.params |-> [name |-> d.params[i].name, ty |-> a.args[i]]]
            fts == IF d.kind = "struct" THEN {d.fields[i].ty : i \in DOMAIN d.fields}
                   ELSE UNION {{d.variants[v].fields[i].ty : i \in DOMAIN d.variants[v].fields} : v \in DOMAIN d.variants}
        IN UNION {InstsOf(P, Subst(P, ft, env), seen2) : ft \in fts} : a \in adts}
  IN adts \cup inner
Insts(P, roots) == UNION {InstsOf(P, roots[i], {}) : i \in DOMAIN roots}

DefFieldTys(d) == IF d.kind = "struct" THEN {d.fields[i].ty : i \in DOMAIN d.fields}
                  ELSE UNION {{d.variants[v].fields[i].ty : i \in DOMAIN d.variants[v].fields} : v \in DOMAIN d.variants}

RECURSIVE NormDeep(_)
NormDeep(e) ==   \* identity of the registered id: two positions get one id iff their deep normal forms agree
  LET n == Norm(e) IN
  CASE n.k \in {"seq", "opt", "cow", "compact", "btset", "heap", "range", "rangei", "arr"} -> [n EXCEPT !.of = NormDeep(@)]
    [] n.k = "tup" -> [n EXCEPT !.elems = [i \in DOMAIN @ |-> NormDeep(@[i])]]
    [] n.k = "res" -> [n EXCEPT !.ok = NormDeep(@), !.err = NormDeep(@)]
    [] n.k = "btmap" -> [n EXCEPT !.key = NormDeep(@), !.val = NormDeep(@)]
    [] n.k = "adt" -> [n EXCEPT !.args = [i \in DOMAIN @ |-> NormDeep(@[i])]]
    [] OTHER -> n

InstCF(P, a) ==
  LET d == DefOf(P, a.name)
      env == [i \in DOMAIN d.params |-> [name |-> d.params[i].name, ty |-> a.args[i]]]
      live == {i \in DOMAIN d.params : ~d.params[i].skipped}
      argIds == {NormDeep(a.args[i]) : i \in live}
  IN /\ \A i, j \in live : i # j => NormDeep(a.args[i]) # NormDeep(a.args[j])                      \* CF1
     /\ \A ft \in DefFieldTys(d) : \A q \in SubExprs(ft) :                                           \* CF2
          (q.k # "param" /\ q.k # "phantom") => NormDeep(Subst(P, q, env)) \notin argIds
     /\ \A ft \in DefFieldTys(d) :                                                                   \* CF3
          ~(ft.k = "box" /\ ft.of.k = "param")

CoincidenceFree(P, roots) == \A a \in Insts(P, roots) : InstCF(P, a)

\* every path is the path of one definition, and no definition projects an associated type: the
\* instantiations of such a definition are what "stay together" speaks about
HasAssoc(d) == \E ft \in DefFieldTys(d) : \E q \in {ft} \cup SubExprs(ft) : q.k = "assoc"
OneDefPerPath(P, roots) ==
  LET ds == {DefOf(P, a.name) : a \in Insts(P, roots)} IN
  /\ \A d1, d2 \in ds : (d1.mod \o <<d1.ident>> = d2.mod \o <<d2.ident>>) => d1 = d2
  /\ \A d \in ds : ~HasAssoc(d)
==================================================================================
