-------------------------------- MODULE Dedup --------------------------------
(* Concrete model of utils.rs::ensure_unique_type_paths: sanity pass, grouping loop in      *)
(* registry order against the first member of each existing group, then renaming of every   *)
(* path with more than one group with suffixes 1..k (paths in arbitrary - HashMap - order). *)
(* Plus the abstract predicates of the de-duplication contract (C04).                        *)
EXTENDS Typegen

\* dst = [i, groups: Seq([path, gs: Seq(Seq(idx))]), res, given, expected, reg, pending: set of paths]
DInit(reg) ==
  LET bad == SanityFail(reg) IN
  [i |-> 1, groups |-> <<>>, reg |-> reg, pending |-> {},
   res |-> IF bad > 0 THEN "RegistryTypeIdsInvalid" ELSE "grouping",
   given |-> IF bad > 0 THEN reg[bad].id ELSE -1, expected |-> IF bad > 0 THEN bad - 1 ELSE -1]

PathIdx(groups, p) == LET idx == {k \in DOMAIN groups : groups[k].path = p} IN IF idx = {} THEN 0 ELSE CHOOSE k \in idx : TRUE

\* which group does registry index idx (= position - 1) join?  0 = new group; -1 = panic in types_equal
JoinOf(reg, gs, idx) ==
  LET res == [g \in DOMAIN gs |-> TypesEqualRes(reg, idx, gs[g][1])]
      \* groups are tried in order; a panic before the first match aborts
      firstHit == {g \in DOMAIN gs : res[g].r /\ ~res[g].panic}
      firstPanic == {g \in DOMAIN gs : res[g].panic}
      minOf(s) == CHOOSE x \in s : \A y \in s : x <= y
  IN IF firstPanic # {} /\ (firstHit = {} \/ minOf(firstPanic) < minOf(firstHit)) THEN -1
     ELSE IF firstHit = {} THEN 0 ELSE minOf(firstHit)

\* one iteration of the grouping loop; returns [st, ev] where ev = [skip] | [idx, joined]
GroupStep(st) ==
  LET e == st.reg[st.i]
      idx == st.i - 1
      nxt == [st EXCEPT !.i = @ + 1]
  IN IF Len(e.path) <= 1 THEN [st |-> nxt, skip |-> TRUE, idx |-> idx, joined |-> -1]
     ELSE LET k == PathIdx(st.groups, e.path)
              gs == IF k = 0 THEN <<>> ELSE st.groups[k].gs
              j == JoinOf(st.reg, gs, idx)
          IN IF j = -1 THEN [st |-> [st EXCEPT !.res = "panic"], skip |-> FALSE, idx |-> idx, joined |-> -2]
             ELSE LET gs2 == IF j = 0 THEN Append(gs, <<idx>>) ELSE [gs EXCEPT ![j] = Append(@, idx)]
                      groups2 == IF k = 0 THEN Append(st.groups, [path |-> e.path, gs |-> gs2])
                                 ELSE [st.groups EXCEPT ![k] = [path |-> e.path, gs |-> gs2]]
                  IN [st |-> [nxt EXCEPT !.groups = groups2], skip |-> FALSE, idx |-> idx,
                      joined |-> IF j = 0 THEN -1 ELSE gs[j][1]]

GroupingDone(st) ==
  [st EXCEPT !.res = "renaming",
             !.pending = {st.groups[k].path : k \in {g \in DOMAIN st.groups : Len(st.groups[g].gs) > 1}}]

\* the rename events of one path, in group order then member order
RenameEvents(st, p) ==
  LET gs == st.groups[PathIdx(st.groups, p)].gs
      old == p[Len(p)]
  IN FlattenSeq([n \in DOMAIN gs |-> [m \in DOMAIN gs[n] |-> [idx |-> gs[n][m], old |-> old, new |-> old \o ToString(n)]]])
RenamePath(st, p) ==
  LET evs == RenameEvents(st, p)
      newName(pos) == LET hit == {k \in DOMAIN evs : evs[k].idx = pos - 1} IN
                      IF hit = {} THEN "" ELSE evs[CHOOSE k \in hit : TRUE].new
  IN [st EXCEPT !.pending = @ \ {p},
                !.reg = [pos \in DOMAIN @ |-> IF newName(pos) = "" THEN @[pos]
                                               ELSE [@[pos] EXCEPT !.path = Front(@) \o <<newName(pos)>>]]]
RenamingDone(st) == IF st.res = "renaming" /\ st.pending = {} THEN [st EXCEPT !.res = "ok"] ELSE st

RECURSIVE DedupLoop(_)
DedupLoop(st) ==
  IF st.res = "grouping" THEN (IF st.i > Len(st.reg) THEN DedupLoop(GroupingDone(st)) ELSE DedupLoop(GroupStep(st).st))
  ELSE IF st.res = "renaming" THEN (IF st.pending = {} THEN RenamingDone(st)
                                    ELSE DedupLoop(RenamePath(st, CHOOSE p \in st.pending : TRUE)))
  ELSE st
DedupRun(reg) == DedupLoop(DInit(reg))

(* ------------------------------ abstract predicates (C04) ------------------------------ *)
\* two same-path types can share one generated item iff their candidate items coincide
CoRep(reg, S, a, b) == CoRepItems(reg, S, a, b)

SamePathBut(e1, e2) == /\ e1.id = e2.id /\ e1.params = e2.params /\ e1.def = e2.def /\ e1.docs = e2.docs
                       /\ Len(e1.path) = Len(e2.path)
                       /\ (Len(e1.path) > 0 => Front(e1.path) = Front(e2.path))
Changed(R, R2) == {i \in Ids(R) : Ty(R, i).path # Ty(R2, i).path}

C04_Frame(R, R2, S) ==
  /\ Len(R2) = Len(R)
  /\ \A i \in Ids(R) : SamePathBut(Ty(R, i), Ty(R2, i))
  /\ \A i \in Changed(R, R2) :
       /\ IsUserPath(Ty(R, i).path)
       \* only types that shared their path with a differently shaped type are renamed
       /\ \E x, y \in IdsOfPath(R, Ty(R, i).path) : ~CoRep(R, S, x, y)

\* suffixes 1..k in order of first appearance of each shape group; all members of a renamed family renamed
C04_Naming(R, R2) ==
  \A p \in {Ty(R, i).path : i \in Changed(R, R2)} :
    LET mem == IdsOfPath(R, p)
        old == p[Len(p)]
        newNames == {Ident(Ty(R2, i).path) : i \in mem}
        firstOf(n) == CHOOSE i \in mem : Ident(Ty(R2, i).path) = n /\ \A j \in mem : Ident(Ty(R2, j).path) = n => i <= j
        k == Cardinality(newNames)
    IN /\ mem \subseteq Changed(R, R2)
       /\ newNames = {old \o ToString(n) : n \in 1..k}
       /\ \A n1, n2 \in 1..k : n1 < n2 => firstOf(old \o ToString(n1)) < firstOf(old \o ToString(n2))

C04_Together(R, R2) == \A i, j \in Ids(R) : (IsUserPath(Ty(R, i).path) /\ Ty(R, i).path = Ty(R, j).path) => Ty(R2, i).path = Ty(R2, j).path
==================================================================================
