-------------------------------- MODULE Registry --------------------------------
(* Registry values as exchanged with the harness (DESIGN.md A.1) and the graph operators  *)
(* the other modules share.  A registry is a sequence of entries; the entry with id i is  *)
(* reg[i+1] in a registry with consistent ids.                                            *)
(*   entry = [id, path: Seq(STRING), params: Seq([name, ty]), def, docs]   (ty = -1: skipped) *)
(*   def   = [k|->"comp", fields] | [k|->"var", variants: Seq([name,index,fields,docs])]  *)
(*         | [k|->"seq", of] | [k|->"arr", of, len] | [k|->"tup", elems] | [k|->"prim", p] *)
(*         | [k|->"compact", of] | [k|->"bits", store, order]                             *)
(*   field = [name (""=unnamed), ty, tn (""=absent), docs]                                *)
EXTENDS Naturals, Integers, Sequences, FiniteSets, TLC

Ty(reg, id) == reg[id + 1]
Ids(reg) == 0..(Len(reg) - 1)
HasId(reg, id) == id >= 0 /\ id < Len(reg)

RangeOf(s) == {s[i] : i \in DOMAIN s}
Last(s) == s[Len(s)]
Front(s) == SubSeq(s, 1, Len(s) - 1)

RECURSIVE FlattenSeq(_)
FlattenSeq(ss) == IF Len(ss) = 0 THEN <<>> ELSE Head(ss) \o FlattenSeq(Tail(ss))

RECURSIVE JoinWith(_, _)
JoinWith(ss, sep) == IF Len(ss) = 0 THEN ""
                     ELSE IF Len(ss) = 1 THEN ss[1]
                     ELSE ss[1] \o sep \o JoinWith(Tail(ss), sep)

RECURSIVE IndexOf(_, _, _)
IndexOf(s, x, i) == IF i > Len(s) THEN 0 ELSE IF s[i] = x THEN i ELSE IndexOf(s, x, i + 1)

UnsignedPrims == {"u8", "u16", "u32", "u64", "u128"}
SignedPrims == {"i8", "i16", "i32", "i64", "i128"}
RustPrims == UnsignedPrims \cup SignedPrims \cup {"bool", "char", "str"}
AllPrims == RustPrims \cup {"u256", "i256"}

Ident(path) == IF Len(path) = 0 THEN "" ELSE path[Len(path)]
Namespace(path) == IF Len(path) = 0 THEN <<>> ELSE Front(path)
IsUserPath(path) == Len(path) >= 2
IsPreludePath(path) == Len(path) = 1
IsNamedDef(d) == d.k \in {"comp", "var"}

PreludeNames == {"Option", "Result", "Cow", "BTreeMap", "BTreeSet", "BinaryHeap", "VecDeque", "LinkedList",
                 "Range", "RangeInclusive", "NonZeroI8", "NonZeroU8", "NonZeroI16", "NonZeroU16",
                 "NonZeroI32", "NonZeroU32", "NonZeroI64", "NonZeroU64", "NonZeroI128", "NonZeroU128",
                 "NonZeroIsize", "NonZeroUsize"}
\* built-ins of scale-info 2.11.5 that the generator's prelude table lacks (finding D4)
ScaleInfoOnlyPrelude == {"Duration"}

FieldTys(fields) == {fields[i].ty : i \in DOMAIN fields}
DefRefs(d) ==
  CASE d.k = "comp"    -> FieldTys(d.fields)
    [] d.k = "var"     -> UNION {FieldTys(d.variants[i].fields) : i \in DOMAIN d.variants}
    [] d.k = "seq"     -> {d.of}
    [] d.k = "arr"     -> {d.of}
    [] d.k = "tup"     -> RangeOf(d.elems)
    [] d.k = "compact" -> {d.of}
    [] d.k = "bits"    -> {d.store, d.order}
    [] OTHER           -> {}
ParamRefs(e) == {e.params[i].ty : i \in DOMAIN e.params} \ {-1}
EntryRefs(e) == ParamRefs(e) \cup DefRefs(e.def)

\* all field lists of a definition (struct: one, enum: one per variant)
FieldLists(d) == IF d.k = "comp" THEN <<d.fields>>
                 ELSE IF d.k = "var" THEN [i \in DOMAIN d.variants |-> d.variants[i].fields]
                 ELSE <<>>

Dangling(reg) == {i \in Ids(reg) : \E r \in EntryRefs(Ty(reg, i)) : ~HasId(reg, r)}
IdsConsistent(reg) == \A i \in Ids(reg) : Ty(reg, i).id = i

RECURSIVE ReachFrom(_, _, _)
ReachFrom(reg, frontier, seen) ==
  IF frontier = {} THEN seen
  ELSE LET nxt == (UNION {EntryRefs(Ty(reg, i)) : i \in {j \in frontier : HasId(reg, j)}}) \ seen
       IN ReachFrom(reg, nxt, seen \cup nxt)
Reach(reg, id) == ReachFrom(reg, {id}, {id})
ReachSet(reg, ids) == ReachFrom(reg, ids, ids)

\* structural reachability without type parameters (fields / elements only)
RECURSIVE ReachDefFrom(_, _, _)
ReachDefFrom(reg, frontier, seen) ==
  IF frontier = {} THEN seen
  ELSE LET nxt == (UNION {DefRefs(Ty(reg, i).def) : i \in {j \in frontier : HasId(reg, j)}}) \ seen
       IN ReachDefFrom(reg, nxt, seen \cup nxt)
ReachDef(reg, id) == ReachDefFrom(reg, {id}, {id})

\* a cycle through id following structure only
OnCycle(reg, id) == \E r \in DefRefs(Ty(reg, id).def) : HasId(reg, r) /\ id \in ReachDef(reg, r)
Acyclic(reg, id) == \A j \in ReachDef(reg, id) : ~OnCycle(reg, j)
IsEmptyEnum(e) == e.def.k = "var" /\ Len(e.def.variants) = 0
HasEmptyEnum(reg, id) == \E j \in ReachDef(reg, id) : IsEmptyEnum(Ty(reg, j))

UserPaths(reg) == {Ty(reg, i).path : i \in {j \in Ids(reg) : IsUserPath(Ty(reg, j).path)}}
IdsOfPath(reg, p) == {i \in Ids(reg) : Ty(reg, i).path = p}
PathStr(p) == JoinWith(p, "::")

AllNamed(fields) == \A i \in DOMAIN fields : fields[i].name # ""
AllUnnamed(fields) == \A i \in DOMAIN fields : fields[i].name = ""
MixedFields(fields) == ~AllNamed(fields) /\ ~AllUnnamed(fields)

(* permutation / renumbering: pi maps old id -> new id (a bijection on Ids) *)
RenField(f, pi) == [f EXCEPT !.ty = pi[@]]
RenFields(fs, pi) == [i \in DOMAIN fs |-> RenField(fs[i], pi)]
RenDef(d, pi) ==
  CASE d.k = "comp"    -> [d EXCEPT !.fields = RenFields(@, pi)]
    [] d.k = "var"     -> [d EXCEPT !.variants = [i \in DOMAIN @ |-> [@[i] EXCEPT !.fields = RenFields(@, pi)]]]
    [] d.k = "seq"     -> [d EXCEPT !.of = pi[@]]
    [] d.k = "arr"     -> [d EXCEPT !.of = pi[@]]
    [] d.k = "tup"     -> [d EXCEPT !.elems = [i \in DOMAIN @ |-> pi[@[i]]]]
    [] d.k = "compact" -> [d EXCEPT !.of = pi[@]]
    [] d.k = "bits"    -> [d EXCEPT !.store = pi[@], !.order = pi[@]]
    [] OTHER           -> d
RenEntry(e, pi) == [e EXCEPT !.id = pi[@],
                             !.params = [i \in DOMAIN @ |-> IF @[i].ty = -1 THEN @[i] ELSE [@[i] EXCEPT !.ty = pi[@]]],
                             !.def = RenDef(@, pi)]
\* Permute(reg, pi): entry with old id i moves to position pi[i]
Permute(reg, pi) ==
  [n \in 1..Len(reg) |-> LET old == CHOOSE i \in Ids(reg) : pi[i] = n - 1 IN RenEntry(Ty(reg, old), pi)]
==================================================================================
