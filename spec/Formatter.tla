-------------------------------- MODULE Formatter --------------------------------
(* Concrete model of description/src/formatting.rs::format_type_description and the        *)
(* abstract predicates of property C15.  One action per consumed input character, shaped  *)
(* like the `match ch` of the implementation; characters are Unicode code points.         *)
EXTENDS Naturals, Integers, Sequences, FiniteSets

CONSTANT MAXTOK          \* SMALL_SCOPE_MAX_TOKENS (32 in the code; smaller in bounded MC)

LBRACE == 123   RBRACE == 125   COMMA == 44   LPAR == 40   RPAR == 41
LT == 60        GT == 62        SP == 32      NL == 10

Openers == {LBRACE, LPAR, LT}
Closers == {RBRACE, RPAR, GT}
Partner(c) == CASE c = RBRACE -> LBRACE [] c = RPAR -> LPAR [] c = GT -> LT [] OTHER -> 0

\* char::is_whitespace
Whitespace == {9, 10, 11, 12, 13, 32, 133, 160, 5760, 8232, 8233, 8239, 8287, 12288} \cup (8192..8202)

RECURSIVE Indent(_)
Indent(n) == IF n <= 0 THEN <<>> ELSE <<SP, SP, SP, SP>> \o Indent(n - 1)

Top(st) == IF Len(st) = 0 THEN "" ELSE st[Len(st)]
Pop(st) == IF Len(st) = 0 THEN st ELSE SubSeq(st, 1, Len(st) - 1)

(* scope_is_small: peek at most MAXTOK characters after position p of s *)
RECURSIVE SmallFrom(_, _, _, _, _, _)
SmallFrom(s, i, k, bal, open, close) ==
  IF k = 0 \/ i > Len(s) THEN FALSE
  ELSE LET ch == s[i]
           b1 == IF ch = open THEN bal + 1 ELSE bal
           b2 == IF ch = close THEN b1 - 1 ELSE b1
       IN IF ch = close /\ b2 = 0 THEN TRUE
          ELSE IF ch = LBRACE THEN FALSE
          ELSE SmallFrom(s, i + 1, k - 1, b2, open, close)

ScopeIsSmall(s, p, open, close) == SmallFrom(s, p + 1, MAXTOK, 1, open, close)

(* ---- the state machine: st = [pos, out, indent, tuple, angle] over a fixed input s ---- *)
InitState == [pos |-> 0, out |-> <<>>, indent |-> 0, tuple |-> <<>>, angle |-> <<>>]

Brace(s, st) ==
  LET i == st.indent + 1 IN
  [st EXCEPT !.pos = @ + 1, !.indent = i, !.out = @ \o <<SP, LBRACE, NL>> \o Indent(i)]

Close(s, st) ==
  LET i == st.indent - 1 IN
  [st EXCEPT !.pos = @ + 1, !.indent = i, !.out = @ \o <<NL>> \o Indent(i) \o <<RBRACE>>]

Comma(s, st) ==
  [st EXCEPT !.pos = @ + 1,
             !.out = @ \o <<COMMA>> \o (IF Top(st.tuple) = "small" THEN <<SP>>
                                        ELSE <<NL>> \o Indent(st.indent))]

Open(s, st, ch, close, which) ==
  LET small == ScopeIsSmall(s, st.pos + 1, ch, close)
      stack == IF which = "tuple" THEN st.tuple ELSE st.angle
      stack2 == Append(stack, IF small THEN "small" ELSE "big")
      i == IF small THEN st.indent ELSE st.indent + 1
      o == IF small THEN st.out \o <<ch>> ELSE st.out \o <<ch, NL>> \o Indent(i)
  IN [pos |-> st.pos + 1, out |-> o, indent |-> i,
      tuple |-> IF which = "tuple" THEN stack2 ELSE st.tuple,
      angle |-> IF which = "angle" THEN stack2 ELSE st.angle]

Shut(s, st, ch, which) ==
  LET stack == IF which = "tuple" THEN st.tuple ELSE st.angle
      big == Top(stack) = "big"
      i == IF big THEN st.indent - 1 ELSE st.indent
      o == IF big THEN st.out \o <<NL>> \o Indent(i) \o <<ch>> ELSE st.out \o <<ch>>
  IN [pos |-> st.pos + 1, out |-> o, indent |-> i,
      tuple |-> IF which = "tuple" THEN Pop(stack) ELSE st.tuple,
      angle |-> IF which = "angle" THEN Pop(stack) ELSE st.angle]

Other(s, st, ch) == [st EXCEPT !.pos = @ + 1, !.out = @ \o <<ch>>]

ActionName(ch) ==
  CASE ch = LBRACE -> "Brace" [] ch = RBRACE -> "Close" [] ch = COMMA -> "Comma"
    [] ch = LPAR -> "OpenParen" [] ch = RPAR -> "CloseParen"
    [] ch = LT -> "OpenAngle" [] ch = GT -> "CloseAngle" [] OTHER -> "Other"

StepState(s, st) ==
  LET ch == s[st.pos + 1] IN
  CASE ch = LBRACE -> Brace(s, st)
    [] ch = RBRACE -> Close(s, st)
    [] ch = COMMA  -> Comma(s, st)
    [] ch = LPAR   -> Open(s, st, ch, RPAR, "tuple")
    [] ch = RPAR   -> Shut(s, st, ch, "tuple")
    [] ch = LT     -> Open(s, st, ch, GT, "angle")
    [] ch = GT     -> Shut(s, st, ch, "angle")
    [] OTHER       -> Other(s, st, ch)

RECURSIVE RunFrom(_, _)
RunFrom(s, st) == IF st.pos >= Len(s) THEN st ELSE RunFrom(s, StepState(s, st))
Format(s) == RunFrom(s, InitState).out

(* ------------------------------ abstract predicates (C15) ------------------------------ *)
RECURSIVE Strip(_)
Strip(s) == IF Len(s) = 0 THEN <<>>
            ELSE IF Head(s) \in Whitespace THEN Strip(Tail(s))
            ELSE <<Head(s)>> \o Strip(Tail(s))

\* iterative version for long sequences
StripI(s) == LET idx == {i \in 1..Len(s) : s[i] \notin Whitespace}
                 RECURSIVE Build(_, _)
                 Build(i, acc) == IF i > Len(s) THEN acc
                                  ELSE Build(i + 1, IF s[i] \in Whitespace THEN acc ELSE Append(acc, s[i]))
             IN Build(1, <<>>)

OnlyInsertsWhitespace(in, out) == StripI(out) = StripI(in)

NoWs(s) == \A i \in 1..Len(s) : s[i] \notin Whitespace

RECURSIVE NestedFrom(_, _, _)
NestedFrom(s, i, stack) ==
  IF i > Len(s) THEN Len(stack) = 0
  ELSE IF s[i] \in Openers THEN NestedFrom(s, i + 1, Append(stack, s[i]))
  ELSE IF s[i] \in Closers THEN Len(stack) > 0 /\ stack[Len(stack)] = Partner(s[i])
                                /\ NestedFrom(s, i + 1, SubSeq(stack, 1, Len(stack) - 1))
  ELSE NestedFrom(s, i + 1, stack)
Nested(s) == NestedFrom(s, 1, <<>>)

RECURSIVE CountSp(_, _)
CountSp(o, i) == IF i <= Len(o) /\ o[i] = SP THEN 1 + CountSp(o, i + 1) ELSE 0

CountTrue(st) == Cardinality({x \in 1..Len(st) : st[x]})

(* Output-only scanner for the indentation discipline: a scope is "broken" iff its opener *)
(* is directly followed by a line break; every line break is followed by 4 spaces per     *)
(* open broken scope (one level less in front of the closer of a broken scope, one extra  *)
(* space in front of an opening brace); all scopes are closed at the end.                 *)
RECURSIVE Scan(_, _, _)
Scan(o, i, stack) ==
  IF i > Len(o) THEN Len(stack) = 0
  ELSE LET ch == o[i] IN
    IF ch = NL THEN
      LET k == CountSp(o, i + 1)
          j == i + 1 + k
          nxt == IF j <= Len(o) THEN o[j] ELSE 0
          d == CountTrue(stack)
          closesBroken == nxt \in Closers /\ Len(stack) > 0 /\ stack[Len(stack)]
          expect == 4 * (IF closesBroken THEN d - 1 ELSE d) + (IF nxt = LBRACE THEN 1 ELSE 0)
      IN k = expect /\ Scan(o, j, stack)
    ELSE IF ch \in Openers THEN Scan(o, i + 1, Append(stack, i < Len(o) /\ o[i + 1] = NL))
    ELSE IF ch \in Closers THEN Len(stack) > 0 /\ Scan(o, i + 1, SubSeq(stack, 1, Len(stack) - 1))
    ELSE Scan(o, i + 1, stack)

IndentationDiscipline(in, out) == (Nested(in) /\ NoWs(in)) => Scan(out, 1, <<>>)

C15_Holds(in, out) == OnlyInsertsWhitespace(in, out) /\ IndentationDiscipline(in, out)
==================================================================================
