-------------------------------- MODULE Switches --------------------------------
(* C09: the settings switches (alloc crate path, docs, codec attributes, root module name, *)
(* Compact path, DecodedBits path) are honoured everywhere and are orthogonal: two outputs  *)
(* for settings that differ in one switch are equal after erasing exactly the tokens that   *)
(* switch governs.  Works on the projected module (implementation) and on the model output. *)
EXTENDS Source, SettingsPool

SwitchNames == {"alloc", "docs", "codec", "root", "compact", "bits"}
Flip(S, sw) ==
  CASE sw = "alloc" -> IF S.alloc_std THEN [S EXCEPT !.alloc_std = FALSE, !.alloc = PT(TRUE, <<"alloc">>)]
                       ELSE [S EXCEPT !.alloc_std = TRUE, !.alloc = PT(TRUE, <<"std">>)]
    [] sw = "docs" -> [S EXCEPT !.docs = ~@]
    [] sw = "codec" -> [S EXCEPT !.codec = ~@]
    [] sw = "root" -> [S EXCEPT !.root = IF @ = "types" THEN "rt" ELSE "types"]
    [] sw = "compact" -> [S EXCEPT !.compact = IF @ = PT(TRUE, <<"codec", "Compact">>) THEN PT(TRUE, <<"x", "y", "C2">>) ELSE PT(TRUE, <<"codec", "Compact">>)]
    [] sw = "bits" -> [S EXCEPT !.bits = IF @ = PT(TRUE, <<"ext", "DecodedBits">>) THEN PT(FALSE, <<"crate", "B2">>) ELSE PT(TRUE, <<"ext", "DecodedBits">>)]
Combo(a, d, c, r, cp, b) ==
  LET s0 == [Base EXCEPT !.has_compact_as = TRUE]
      s1 == IF a THEN Flip(s0, "alloc") ELSE s0
      s2 == IF d THEN Flip(s1, "docs") ELSE s1
      s3 == IF c THEN Flip(s2, "codec") ELSE s2
      s4 == IF r THEN Flip(s3, "root") ELSE s3
      s5 == IF cp THEN Flip(s4, "compact") ELSE s4
  IN IF b THEN Flip(s5, "bits") ELSE s5

(* ---- erasure of the tokens a switch governs ---- *)
HasPrefix(segs, pre) == Len(segs) >= Len(pre) /\ SubSeq(segs, 1, Len(pre)) = pre
RECURSIVE EraseTy(_, _, _)
EraseTy(t, S, sw) ==
  CASE t.k = "path" ->
         LET args == [i \in DOMAIN t.args |-> EraseTy(t.args[i], S, sw)] IN
         IF sw = "alloc" /\ t.lead = S.alloc.lead /\ HasPrefix(t.segs, S.alloc.segs)
            THEN TPath(FALSE, <<"$alloc">> \o SubSeq(t.segs, Len(S.alloc.segs) + 1, Len(t.segs)), args)
         ELSE IF sw = "root" /\ ~t.lead /\ Len(t.segs) >= 2 /\ t.segs[1] = S.root THEN TPath(FALSE, <<"$root">> \o Tail(t.segs), args)
         ELSE IF sw = "compact" /\ t.lead = S.compact.lead /\ t.segs = S.compact.segs THEN TPath(FALSE, <<"$compact">>, args)
         ELSE IF sw = "bits" /\ t.lead = S.bits.lead /\ t.segs = S.bits.segs THEN TPath(FALSE, <<"$bits">>, args)
         ELSE [t EXCEPT !.args = args]
    [] t.k = "qpath" -> [t EXCEPT !.segargs = [sg \in DOMAIN @ |-> [i \in DOMAIN @[sg] |-> EraseTy(@[sg][i], S, sw)]]]
    [] t.k = "tup" -> [t EXCEPT !.elems = [i \in DOMAIN @ |-> EraseTy(@[i], S, sw)]]
    [] t.k = "arr" -> [t EXCEPT !.of = EraseTy(@, S, sw)]
    [] OTHER -> t
CanonField(f, S, sw) == [name |-> f.name, ty |-> EraseTy(f.ty, S, sw),
                         compact |-> IF sw = "codec" THEN FALSE ELSE f.compact, skip |-> IF sw = "codec" THEN FALSE ELSE f.skip]
CanonItem(it, derives, attrs, S, sw) ==
  [kind |-> it.kind, name |-> it.name, generics |-> it.generics, derives |-> derives, attrs |-> attrs,
   docs |-> IF sw = "docs" THEN <<>> ELSE it.docs, style |-> it.style,
   fields |-> [i \in DOMAIN it.fields |-> CanonField(it.fields[i], S, sw)],
   variants |-> [v \in DOMAIN it.variants |-> [name |-> it.variants[v].name, index |-> IF sw = "codec" THEN -1 ELSE it.variants[v].index,
                                               docs |-> IF sw = "docs" THEN <<>> ELSE it.variants[v].docs, style |-> it.variants[v].style,
                                               fields |-> [i \in DOMAIN it.variants[v].fields |-> CanonField(it.variants[v].fields[i], S, sw)]]]]
\* items: a set of <<path without root, canonical item>>
CanonOfProjection(Root_, S, sw) ==
  {<<Tail(AllItems(Root_)[k].path), CanonItem(AllItems(Root_)[k].it, RangeOf(AllItems(Root_)[k].it.derives), RangeOf(AllItems(Root_)[k].it.attrs), S, sw)>> : k \in DOMAIN AllItems(Root_)}
CanonOfModel(g, S, sw) == {<<g.items[k].path, CanonItem(g.items[k].item, g.items[k].item.derives, g.items[k].item.attrs, S, sw)>> : k \in DOMAIN g.items}

(* ---- per-switch rules on one output (a set of <<path, item>> with raw items) ---- *)
RECURSIVE HasSeg(_, _)
HasSeg(t, seg) == CASE t.k = "path" -> (\E i \in DOMAIN t.segs : t.segs[i] = seg) \/ \E i \in DOMAIN t.args : HasSeg(t.args[i], seg)
                    [] t.k = "tup" -> \E i \in DOMAIN t.elems : HasSeg(t.elems[i], seg)
                    [] t.k = "arr" -> HasSeg(t.of, seg)
                    [] OTHER -> FALSE
AllFields(it) == it.fields \o FlattenSeq([v \in DOMAIN it.variants |-> it.variants[v].fields])
SwitchRulesFailed(reg, S, items) ==   \* items: Seq of [path (with root), it]
  (IF ~S.alloc_std /\ \E k \in DOMAIN items : \E f \in RangeOf(AllFields(items[k].it)) : HasSeg(f.ty, "std") THEN {"NoStdWithCustomAlloc"} ELSE {})
  \cup (IF ~S.docs /\ \E k \in DOMAIN items : Len(items[k].it.docs) > 0 \/ \E v \in DOMAIN items[k].it.variants : Len(items[k].it.variants[v].docs) > 0
        THEN {"NoDocsWhenOff"} ELSE {})
  \cup (IF S.docs /\ \E k \in DOMAIN items :
             LET ids == IdsOfPath(reg, Tail(items[k].path)) IN
             ids # {} /\ LET e == Ty(reg, CHOOSE i \in ids : \A j \in ids : i <= j) IN
                        \/ items[k].it.docs # e.docs
                        \/ (e.def.k = "var" /\ \E v \in DOMAIN e.def.variants : v <= Len(items[k].it.variants) /\ items[k].it.variants[v].docs # e.def.variants[v].docs)
        THEN {"DocsExactlyRegistryLines"} ELSE {})
  \cup (IF ~S.codec /\ \E k \in DOMAIN items : (\E f \in RangeOf(AllFields(items[k].it)) : f.compact \/ f.skip) \/ \E v \in DOMAIN items[k].it.variants : items[k].it.variants[v].index # -1
        THEN {"NoCodecAttributesWhenOff"} ELSE {})
  \cup (IF S.codec /\ \E k \in DOMAIN items :
             LET ids == IdsOfPath(reg, Tail(items[k].path)) IN
             ids # {} /\ LET e == Ty(reg, CHOOSE i \in ids : \A j \in ids : i <= j) IN
                        e.def.k = "var" /\ \E v \in DOMAIN e.def.variants : v <= Len(items[k].it.variants) /\ items[k].it.variants[v].index # e.def.variants[v].index
        THEN {"IndexOnEveryVariant"} ELSE {})
=================================================================================
