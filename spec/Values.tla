-------------------------------- MODULE Values --------------------------------
(* Example values (C12, C14): when is a scale_value tree an instance of a registry type        *)
(* (ValueConforms), an independent byte-level SCALE decoder over registry shapes (Dec), where  *)
(* example generation may fail at all (CanError: the in-progress marker turns recursion into   *)
(* an error; an enum without variants has no example), and when a projected Rust expression is *)
(* an instance of the type the generator emits (ExprConforms).                                 *)
EXTENDS Transformer, Typegen

(* ------------------------- decimal strings (values above 2^31 travel as text) ------------------------- *)
DigitVal(ch) == CASE ch = "0" -> 0 [] ch = "1" -> 1 [] ch = "2" -> 2 [] ch = "3" -> 3 [] ch = "4" -> 4 [] ch = "5" -> 5
                  [] ch = "6" -> 6 [] ch = "7" -> 7 [] ch = "8" -> 8 [] ch = "9" -> 9 [] OTHER -> -1
IsDec(s) == Len(s) > 0 /\ \A i \in 1..Len(s) : DigitVal(SubSeq(s, i, i)) >= 0
RECURSIVE LexLeq(_, _, _)
LexLeq(a, b, i) == IF i > Len(a) THEN TRUE
                   ELSE LET x == DigitVal(SubSeq(a, i, i))  y == DigitVal(SubSeq(b, i, i)) IN
                        IF x < y THEN TRUE ELSE IF x > y THEN FALSE ELSE LexLeq(a, b, i + 1)
DecLeq(a, b) == Len(a) < Len(b) \/ (Len(a) = Len(b) /\ LexLeq(a, b, 1))   \* no leading zeros except "0"
NoLeadingZero(s) == s = "0" \/ SubSeq(s, 1, 1) # "0"
MaxU(p) == CASE p = "u8" -> "255" [] p = "u16" -> "65535" [] p = "u32" -> "4294967295" [] p = "u64" -> "18446744073709551615"
             [] p = "u128" -> "340282366920938463463374607431768211455"
MaxI(p) == CASE p = "i8" -> "127" [] p = "i16" -> "32767" [] p = "i32" -> "2147483647" [] p = "i64" -> "9223372036854775807"
             [] p = "i128" -> "170141183460469231731687303715884105727"
MinIAbs(p) == CASE p = "i8" -> "128" [] p = "i16" -> "32768" [] p = "i32" -> "2147483648" [] p = "i64" -> "9223372036854775808"
                [] p = "i128" -> "170141183460469231731687303715884105728"
InRangeU(p, s) == IsDec(s) /\ NoLeadingZero(s) /\ DecLeq(s, MaxU(p))
InRangeI(p, s) == IF Len(s) > 1 /\ SubSeq(s, 1, 1) = "-"
                  THEN LET m == SubSeq(s, 2, Len(s)) IN IsDec(m) /\ NoLeadingZero(m) /\ DecLeq(m, MinIAbs(p))
                  ELSE IsDec(s) /\ NoLeadingZero(s) /\ DecLeq(s, MaxI(p))

(* ------------------------------------ ValueConforms ------------------------------------ *)
RECURSIVE VConf(_, _, _, _)
VFields(reg, fields, v, fuel) ==
  IF Len(fields) = 0 THEN v.k = "unnamed" /\ Len(v.vals) = 0
  ELSE IF AllNamed(fields)
       THEN /\ v.k = "named" /\ Len(v.fields) = Len(fields)
            /\ \A i \in DOMAIN fields : v.fields[i].name = fields[i].name /\ VConf(reg, fields[i].ty, v.fields[i].v, fuel)
       ELSE /\ v.k = "unnamed" /\ Len(v.vals) = Len(fields)
            /\ \A i \in DOMAIN fields : VConf(reg, fields[i].ty, v.vals[i], fuel)
VConf(reg, id, v, fuel) ==
  IF fuel = 0 \/ ~HasId(reg, id) THEN FALSE ELSE
  LET d == Ty(reg, id).def IN
  CASE d.k = "comp" -> VFields(reg, d.fields, v, fuel - 1)
    [] d.k = "var" -> /\ v.k = "variant"
                      /\ \E i \in DOMAIN d.variants : d.variants[i].name = v.name /\ VFields(reg, d.variants[i].fields, v.vals, fuel - 1)
    [] d.k = "seq" -> v.k = "unnamed" /\ \A i \in DOMAIN v.vals : VConf(reg, d.of, v.vals[i], fuel - 1)
    [] d.k = "arr" -> v.k = "unnamed" /\ Len(v.vals) = d.len /\ \A i \in DOMAIN v.vals : VConf(reg, d.of, v.vals[i], fuel - 1)
    [] d.k = "tup" -> v.k = "unnamed" /\ Len(v.vals) = Len(d.elems) /\ \A i \in DOMAIN d.elems : VConf(reg, d.elems[i], v.vals[i], fuel - 1)
    [] d.k = "compact" -> VConf(reg, d.of, v, fuel - 1)
    [] d.k = "bits" -> v.k = "bits"
    [] d.k = "prim" ->
         /\ v.k = "prim"
         /\ CASE d.p = "bool" -> v.p = "bool" /\ v.v \in {"true", "false"}
              [] d.p = "char" -> v.p = "char" /\ Len(v.v) = 1
              [] d.p = "str" -> v.p = "str"
              [] d.p \in UnsignedPrims -> v.p = "u128" /\ InRangeU(d.p, v.v)
              [] d.p \in SignedPrims -> v.p = "i128" /\ InRangeI(d.p, v.v)
              [] d.p = "u256" -> v.p = "u256" /\ Len(v.v) = 64
              [] d.p = "i256" -> v.p = "i256" /\ Len(v.v) = 64
              [] OTHER -> FALSE
ValueConforms(reg, id, v) == VConf(reg, id, v, 4 * Len(reg) + 8)

(* ------------------------------ where generation may fail ------------------------------ *)
\* the in-progress marker: an id met again while its own example is being computed is an error; an enum needs a variant.
\* `direct`: sequence / array elements are computed without going through resolve (Rust values), so they carry no marker themselves
RECURSIVE CanErr(_, _, _, _, _)
CanErr(reg, id, onstack, direct, viaResolve) ==
  IF ~HasId(reg, id) THEN TRUE
  ELSE IF viaResolve /\ id \in onstack THEN TRUE
  ELSE LET d == Ty(reg, id).def
           st == IF viaResolve THEN onstack \cup {id} ELSE onstack
           Kid(j) == CanErr(reg, j, st, direct, TRUE)
           Elem(j) == CanErr(reg, j, st, direct, ~direct)
       IN CASE d.k = "comp" -> MixedFields(d.fields) \/ \E i \in DOMAIN d.fields : Kid(d.fields[i].ty)
            [] d.k = "var" -> Len(d.variants) = 0 \/ \E v \in DOMAIN d.variants : MixedFields(d.variants[v].fields) \/ \E i \in DOMAIN d.variants[v].fields : Kid(d.variants[v].fields[i].ty)
            [] d.k = "seq" -> Elem(d.of)
            [] d.k = "arr" -> IF direct THEN Elem(d.of) ELSE (d.len > 0 /\ Elem(d.of))
            [] d.k = "tup" -> \E i \in DOMAIN d.elems : Kid(d.elems[i])
            [] d.k = "compact" -> Kid(d.of)
            [] OTHER -> FALSE
CanError(reg, id, direct) == CanErr(reg, id, {}, direct, TRUE)

(* ------------------------------ byte-level decoder (independent oracle) ------------------------------ *)
\* returns the position after the value, or 0 if the bytes are not a valid encoding
PrimWidth(p) == CASE p \in {"bool", "u8", "i8"} -> 1 [] p \in {"u16", "i16"} -> 2 [] p \in {"u32", "i32", "char"} -> 4
                  [] p \in {"u64", "i64"} -> 8 [] p \in {"u128", "i128"} -> 16 [] p \in {"u256", "i256"} -> 32 [] OTHER -> 0
\* compact prefix at pos: [next, val] (val = -1 when it does not fit / big-integer mode)
CompactAt(b, pos) ==
  IF pos > Len(b) THEN [next |-> 0, val |-> -1]
  ELSE LET m == b[pos] % 4 IN
       CASE m = 0 -> [next |-> pos + 1, val |-> b[pos] \div 4]
         [] m = 1 -> IF pos + 1 > Len(b) THEN [next |-> 0, val |-> -1] ELSE [next |-> pos + 2, val |-> (b[pos] + 256 * b[pos + 1]) \div 4]
         [] m = 2 -> IF pos + 3 > Len(b) THEN [next |-> 0, val |-> -1]
                     ELSE [next |-> pos + 4, val |-> IF b[pos + 3] >= 64 THEN -1 ELSE (b[pos] \div 4) + 64 * b[pos + 1] + 16384 * b[pos + 2] + 4194304 * b[pos + 3]]
         [] OTHER -> LET n == (b[pos] \div 4) + 4 IN IF pos + n > Len(b) THEN [next |-> 0, val |-> -1] ELSE [next |-> pos + 1 + n, val |-> -1]
RECURSIVE Dec(_, _, _, _, _)
RECURSIVE DecMany(_, _, _, _, _)
DecMany(reg, ids, b, pos, fuel) ==
  IF pos = 0 THEN 0 ELSE IF Len(ids) = 0 THEN pos ELSE DecMany(reg, Tail(ids), b, Dec(reg, Head(ids), b, pos, fuel), fuel)
RECURSIVE DecRepeat(_, _, _, _, _, _)
DecRepeat(reg, id, n, b, pos, fuel) == IF pos = 0 THEN 0 ELSE IF n = 0 THEN pos ELSE DecRepeat(reg, id, n - 1, b, Dec(reg, id, b, pos, fuel), fuel)
\* the primitive a compact wraps: directly, or through single-field wrapper structs
RECURSIVE CompactPrim(_, _, _)
CompactPrim(reg, id, fuel) ==
  IF fuel = 0 \/ ~HasId(reg, id) THEN "" ELSE
  LET d == Ty(reg, id).def IN
  IF d.k = "prim" THEN d.p ELSE IF d.k = "comp" /\ Len(d.fields) = 1 THEN CompactPrim(reg, d.fields[1].ty, fuel - 1)
  ELSE IF d.k = "tup" /\ Len(d.elems) = 0 THEN "unit" ELSE ""
Dec(reg, id, b, pos, fuel) ==
  IF pos = 0 \/ fuel = 0 \/ ~HasId(reg, id) THEN 0 ELSE
  LET d == Ty(reg, id).def IN
  CASE d.k = "prim" ->
         IF d.p = "str" THEN LET c == CompactAt(b, pos) IN IF c.next = 0 \/ c.val < 0 \/ c.next + c.val - 1 > Len(b) THEN 0 ELSE c.next + c.val
         ELSE IF d.p = "bool" THEN (IF pos <= Len(b) /\ b[pos] \in {0, 1} THEN pos + 1 ELSE 0)
         ELSE IF pos + PrimWidth(d.p) - 1 > Len(b) THEN 0 ELSE pos + PrimWidth(d.p)
    [] d.k = "compact" -> LET p == CompactPrim(reg, d.of, 8) IN
                          IF p = "unit" THEN pos ELSE IF p \notin UnsignedPrims THEN 0 ELSE CompactAt(b, pos).next
    [] d.k = "seq" -> LET c == CompactAt(b, pos) IN IF c.next = 0 \/ c.val < 0 THEN 0 ELSE DecRepeat(reg, d.of, c.val, b, c.next, fuel - 1)
    [] d.k = "arr" -> DecRepeat(reg, d.of, d.len, b, pos, fuel - 1)
    [] d.k = "tup" -> DecMany(reg, d.elems, b, pos, fuel - 1)
    [] d.k = "comp" -> DecMany(reg, [i \in DOMAIN d.fields |-> d.fields[i].ty], b, pos, fuel - 1)
    [] d.k = "var" -> IF pos > Len(b) THEN 0
                      ELSE LET hit == {v \in DOMAIN d.variants : d.variants[v].index = b[pos]} IN
                           IF hit = {} THEN 0
                           ELSE LET v == CHOOSE x \in hit : TRUE IN DecMany(reg, [i \in DOMAIN d.variants[v].fields |-> d.variants[v].fields[i].ty], b, pos + 1, fuel - 1)
    [] d.k = "bits" -> LET c == CompactAt(b, pos)
                           sp == IF HasId(reg, d.store) /\ Ty(reg, d.store).def.k = "prim" THEN PrimWidth(Ty(reg, d.store).def.p) ELSE 0
                       IN IF c.next = 0 \/ c.val < 0 \/ sp = 0 THEN 0
                          ELSE LET words == (c.val + 8 * sp - 1) \div (8 * sp) IN IF c.next + words * sp - 1 > Len(b) THEN 0 ELSE c.next + words * sp
    [] OTHER -> 0
DecodesExactly(reg, id, bytes) == Dec(reg, id, bytes, 1, 4 * Len(reg) + 8) = Len(bytes) + 1

(* ------------------------------------ ExprConforms (C14) ------------------------------------ *)
\* e: projected syn::Expr; paths[id]: projected resolve_type_path(id); Root: projected generated module
IsPhantomExpr(e) == e.k = "path" /\ e.path.lead /\ e.path.segs = <<"core", "marker", "PhantomData">>
LitIs(e, lk, suffix) == e.k = "lit" /\ e.lk = lk /\ e.suffix = suffix
\* `[e; n]` is an instance of an array type only if the element type is Copy: primitives other than str, and arrays, tuples
\* and compact wrappers of such (generated items are not Copy unless the user derives it)
RECURSIVE MayBeCopy(_, _, _)
MayBeCopy(reg, id, fuel) ==
  IF fuel = 0 \/ ~HasId(reg, id) THEN FALSE
  ELSE LET d == Ty(reg, id).def IN
       CASE d.k = "prim" -> d.p # "str"
         [] d.k = "arr" -> MayBeCopy(reg, d.of, fuel - 1)
         [] d.k = "tup" -> \A i \in DOMAIN d.elems : MayBeCopy(reg, d.elems[i], fuel - 1)
         [] d.k = "compact" -> MayBeCopy(reg, d.of, fuel - 1)
         [] OTHER -> FALSE

RECURSIVE EConf(_, _, _, _, _, _, _)
\* a field list written as { name: v, .. } / ( v, .. ) / nothing, optionally followed by the marker
EFields(reg, S, Root, paths, fields, marker, argsOrFields, isNamed, fuel) ==
  LET n == Len(fields) IN
  /\ Len(argsOrFields) = n + (IF marker THEN 1 ELSE 0)
  /\ \A i \in DOMAIN fields :
       LET x == argsOrFields[i]
           val == IF isNamed THEN x.e ELSE x
           explicitCompact == StartsWith(fields[i].tn, "Compact<")
           inner == IF explicitCompact THEN (IF val.k = "call" /\ val.path.segs = <<"Compact">> /\ Len(val.args) = 1 THEN val.args[1] ELSE [k |-> "bad"]) ELSE val
           \* a boxed field accepts x or Box::new(x)
           unboxed == IF Contains(fields[i].tn, "Box<") /\ inner.k = "call" /\ inner.path.segs \in {<<"Box", "new">>, <<"std", "boxed", "Box", "new">>} /\ Len(inner.args) = 1
                      THEN inner.args[1] ELSE inner
       IN /\ (isNamed => x.name = fields[i].name)
          /\ EConf(reg, S, Root, paths, fields[i].ty, unboxed, fuel)
  /\ marker => LET m == argsOrFields[n + 1] IN IF isNamed THEN m.name = "__ignore" /\ IsPhantomExpr(m.e) ELSE IsPhantomExpr(m)

\* expression for a composite-like thing (struct or variant) named by `pathSegs`
ECompositeAt(reg, S, Root, paths, lead, pathSegs, fields, marker, e, fuel) ==
  IF Len(fields) = 0 /\ ~marker THEN e.k = "path" /\ e.path.segs = pathSegs /\ e.path.lead = lead /\ ~e.path.generic
  ELSE IF Len(fields) > 0 /\ AllNamed(fields)
       THEN /\ e.k = "struct" /\ e.path.segs = pathSegs /\ e.path.lead = lead /\ ~e.path.generic /\ ~e.rest
            /\ EFields(reg, S, Root, paths, fields, marker, e.fields, TRUE, fuel)
       ELSE /\ e.k = "call" /\ e.path.segs = pathSegs /\ e.path.lead = lead /\ ~e.path.generic
            /\ EFields(reg, S, Root, paths, fields, marker, e.args, FALSE, fuel)

EConf(reg, S, Root, paths, id, e, fuel) ==
  IF fuel = 0 \/ ~HasId(reg, id) THEN FALSE ELSE
  LET ty == Ty(reg, id)
      d == ty.def
      t0 == paths[id + 1].ty
      \* ty_path_middleware of the case ("droproot": the leading root segment of a generated path is removed)
      t == IF S.droproot /\ t0.k = "path" /\ ~t0.lead /\ Len(t0.segs) > 1 /\ t0.segs[1] = S.root THEN [t0 EXCEPT !.segs = Tail(@)] ELSE t0
      mwHit == {m \in DOMAIN S.mw : Len(ty.path) > 0 /\ S.mw[m].ident = Ident(ty.path)}
  IN
  \* ty_middleware of the case: a listed type is replaced by the given expression
  IF mwHit # {} THEN e = S.mw[CHOOSE m \in mwHit : \A m2 \in mwHit : m <= m2].tree ELSE
  CASE ty.path = <<"Cow">> /\ d.k = "comp" /\ Len(ty.params) = 1 /\ ty.params[1].ty # -1 ->
         EConf(reg, S, Root, paths, ty.params[1].ty, e, fuel - 1)          \* Cow is transparent in the generated code
    [] d.k \in {"comp", "var"} ->
         /\ paths[id + 1].res = "ok" /\ t.k = "path"
         /\ LET it == IF ~t0.lead THEN FindItem(Root, t0.segs) ELSE NoItem
                \* the marker for unused parameters, read off the generated item (types without an emitted item have none)
                structMarker == it.kind = "struct" /\ Len(it.fields) > Len(RealFields(it.fields))
            IN IF d.k = "comp"
               THEN IF it.kind = "none"
                    THEN \* no emitted item (prelude / substituted types): judged against the registry definition; a marker may or may not be written
                         \/ ECompositeAt(reg, S, Root, paths, t.lead, t.segs, d.fields, FALSE, e, fuel - 1)
                         \/ ECompositeAt(reg, S, Root, paths, t.lead, t.segs, d.fields, TRUE, e, fuel - 1)
                    ELSE ECompositeAt(reg, S, Root, paths, t.lead, t.segs, d.fields, structMarker, e, fuel - 1)
               ELSE \* `Option::None` is written `None`
                    \/ (ty.path = <<"Option">> /\ e.k = "path" /\ e.path.segs = <<"None">>)
                    \/ \E v \in DOMAIN d.variants :
                         ECompositeAt(reg, S, Root, paths, t.lead, Append(t.segs, d.variants[v].name), d.variants[v].fields, FALSE, e, fuel - 1)
    [] d.k = "seq" -> e.k = "vec" /\ Len(e.elems) = 2 /\ \A i \in DOMAIN e.elems : EConf(reg, S, Root, paths, d.of, e.elems[i], fuel - 1)
    [] d.k = "arr" -> \/ (e.k = "array" /\ Len(e.elems) = d.len /\ \A i \in DOMAIN e.elems : EConf(reg, S, Root, paths, d.of, e.elems[i], fuel - 1))
                      \/ (e.k = "repeat" /\ e.len = d.len /\ MayBeCopy(reg, d.of, fuel - 1) /\ EConf(reg, S, Root, paths, d.of, e.e, fuel - 1))
    [] d.k = "tup" -> e.k = "tuple" /\ Len(e.elems) = Len(d.elems) /\ \A i \in DOMAIN d.elems : EConf(reg, S, Root, paths, d.elems[i], e.elems[i], fuel - 1)
    [] d.k = "compact" -> EConf(reg, S, Root, paths, d.of, e, fuel - 1)
    [] d.k = "prim" ->
         CASE d.p = "bool" -> LitIs(e, "bool", "")
           [] d.p = "char" -> LitIs(e, "char", "")
           [] d.p = "str" -> e.k = "mcall" /\ e.method = "into" /\ e.recv.k = "lit" /\ e.recv.lk = "str"
           [] d.p \in UnsignedPrims -> LitIs(e, "int", d.p) /\ ~e.neg /\ InRangeU(d.p, e.lit)
           [] d.p \in SignedPrims -> LitIs(e, "int", d.p) /\ InRangeI(d.p, (IF e.neg THEN "-" ELSE "") \o e.lit)
           [] OTHER -> FALSE
    [] OTHER -> FALSE
ExprConforms(reg, S, Root, paths, id, e) == EConf(reg, S, Root, paths, id, e, 4 * Len(reg) + 8)
=================================================================================
