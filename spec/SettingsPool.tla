-------------------------------- MODULE SettingsPool --------------------------------
(* Pool of supported generator settings (DESIGN.md 3.5) in the exchange form A.2. *)
EXTENDS RustSem

PT(lead, segs) == TPath(lead, segs, <<>>)
DCall(op, path, items, rec) == [op |-> op, path |-> path, items |-> items, recursive |-> rec]

Base == [root |-> "types", alloc_std |-> TRUE, alloc |-> PT(TRUE, <<"std">>), docs |-> TRUE, codec |-> TRUE,
         has_compact |-> TRUE, compact |-> PT(TRUE, <<"codec", "Compact">>),
         has_bits |-> TRUE, bits |-> PT(TRUE, <<"ext", "DecodedBits">>),
         has_compact_as |-> FALSE, compact_as |-> PT(TRUE, <<"codec", "CompactAs">>),
         derive_calls |-> <<>>, subs |-> <<>>]

NoStd == [Base EXCEPT !.root = "runtime_types", !.alloc_std = FALSE, !.alloc = PT(TRUE, <<"alloc">>), !.docs = FALSE,
                      !.compact = PT(TRUE, <<"parity_scale_codec", "Compact">>), !.bits = PT(FALSE, <<"crate", "Bits">>)]
Derived == [Base EXCEPT !.has_compact_as = TRUE,
                        !.derive_calls = <<DCall("all_d", PT(FALSE, <<"x">>), <<"::codec::Encode", "::codec::Decode", "Clone">>, FALSE),
                                           DCall("all_a", PT(FALSE, <<"x">>), <<"#[allow(dead_code)]">>, FALSE)>>]
Subst1 == [Base EXCEPT !.root = "root", !.alloc_std = FALSE, !.alloc = PT(FALSE, <<"crate", "reexport", "alloc">>),
                       !.subs = <<[src |-> PT(FALSE, <<"m", "U">>), dst |-> PT(TRUE, <<"ext", "MyU">>)]>>]
NoCodec == [Base EXCEPT !.codec = FALSE]

SettingsPool == {Base, NoStd, Derived, Subst1}
======================================================================================
