-------------------------------- MODULE SettingsPool --------------------------------
(* Pool of supported generator settings (DESIGN.md 3.5) in the exchange form A.2. *)
EXTENDS RustSem

PT(lead, segs) == TPath(lead, segs, <<>>)
DCall(op, path, items, rec) == [op |-> op, path |-> path, items |-> items, recursive |-> rec]

Base == [root |-> "types", alloc_std |-> TRUE, alloc |-> PT(TRUE, <<"std">>), docs |-> TRUE, codec |-> TRUE,
         has_compact |-> TRUE, compact |-> PT(TRUE, <<"codec", "Compact">>),
         has_bits |-> TRUE, bits |-> PT(TRUE, <<"ext", "DecodedBits">>),
         has_compact_as |-> FALSE, compact_as |-> PT(TRUE, <<"codec", "CompactAs">>),
         derive_calls |-> <<>>, subs |-> <<>>]

NoStd == [Base EXCEPT !.root = "runtime_types", !.alloc_std = FALSE, !.alloc = PT(TRUE, <<"alloc">>), !.docs = FALSE,
                      !.compact = PT(TRUE, <<"parity_scale_codec", "Compact">>), !.bits = PT(FALSE, <<"crate", "Bits">>)]
Derived == [Base EXCEPT !.has_compact_as = TRUE,
                        !.derive_calls = <<DCall("all_d", PT(FALSE, <<"x">>), <<"::codec::Encode", "::codec::Decode", "Clone">>, FALSE),
                                           DCall("all_a", PT(FALSE, <<"x">>), <<"#[allow(dead_code)]">>, FALSE)>>]
Subst1 == [Base EXCEPT !.root = "root", !.alloc_std = FALSE, !.alloc = PT(FALSE, <<"crate", "reexport", "alloc">>),
                       !.subs = <<[src |-> PT(FALSE, <<"m", "U">>), dst |-> PT(TRUE, <<"ext", "MyU">>)]>>]
NoCodec == [Base EXCEPT !.codec = FALSE]

CompactAsNoCodec == [Derived EXCEPT !.codec = FALSE, !.root = "rt"]
SettingsPool == {Base, NoStd, Derived, Subst1, CompactAsNoCodec}

Id(n) == TPath(FALSE, <<n>>, <<>>)
SubSrc(args) == TPath(FALSE, <<"m", "sub", "Sub">>, args)
Ext(n, args) == TPath(TRUE, <<"ext", n>>, args)
U8T == TPath(TRUE, <<"core", "primitive", "u8">>, <<>>)
Rule(src, dst) == [src |-> src, dst |-> dst]

(* derive / attribute registrations for C08: global, specific and recursive on several roots with overlapping reach *)
DPath(segs) == PT(FALSE, segs)
DerivePool == <<
  DCall("all_d", DPath(<<"x">>), <<"::d::All">>, FALSE),
  DCall("all_a", DPath(<<"x">>), <<"#[all_attr]", "#[all_attr(b)]", "#[all_attr(a=2)]">>, FALSE),
  DCall("for_d", DPath(<<"m", "R">>), <<"::d::RecR">>, TRUE),
  DCall("for_d", DPath(<<"m", "deep", "er", "W">>), <<"::d::RecW", "Clone">>, TRUE),
  DCall("for_a", DPath(<<"m", "Z">>), <<"#[rec_z]">>, TRUE),
  DCall("for_d", DPath(<<"m", "leaf", "X">>), <<"::d::SpecX">>, FALSE),
  DCall("for_d", DPath(<<"m", "G">>), <<"::d::RecG">>, TRUE),
  DCall("for_a", DPath(<<"m", "Un">>), <<"#[spec_un]">>, FALSE),
  DCall("for_d", DPath(<<"m", "leaf", "X">>), <<"::d::RecX", "::d::All">>, TRUE),
  DCall("for_d", DPath(<<"m", "PhT">>), <<"::d::RecPh">>, TRUE),
  DCall("for_a", DPath(<<"m", "R">>), <<"#[spec_r]">>, FALSE),
  \* second registrations that land in the same map entry as an earlier one (attributes next to derives, derives twice)
  DCall("for_a", DPath(<<"m", "R">>), <<"#[rec_r]">>, TRUE),
  DCall("for_d", DPath(<<"m", "leaf", "X">>), <<"::d::SpecX2">>, FALSE) >>
LsbRule == Rule(TPath(FALSE, <<"bitvec", "order", "Lsb0">>, <<>>), Ext("Lsb0", <<>>))
DeriveBase == [Base EXCEPT !.has_compact_as = TRUE, !.subs = <<LsbRule>>]
\* every 1- and 2-element selection of the pool (order of registration as listed), plus everything at once
DeriveSettings == {[DeriveBase EXCEPT !.derive_calls = <<DerivePool[i]>>] : i \in DOMAIN DerivePool}
                  \cup {[DeriveBase EXCEPT !.derive_calls = <<DerivePool[i], DerivePool[j]>>] : i \in DOMAIN DerivePool, j \in DOMAIN DerivePool}
                  \cup {[DeriveBase EXCEPT !.derive_calls = DerivePool], [DeriveBase EXCEPT !.derive_calls = DerivePool, !.has_compact_as = FALSE]}
CompactAsSettings == {[DeriveBase EXCEPT !.derive_calls = <<DerivePool[1]>>], [DeriveBase EXCEPT !.has_compact_as = FALSE]}

(* substitution rules over m::sub::Sub<A,B> (and the prelude BTreeMap): pass-through, declared generics in order / *)
(* swapped / nested / repeated / missing / with a fixed extra argument, fewer source parameters, fixed arguments    *)
(* without declared source parameters                                                                               *)
SubRules == {
  Rule(SubSrc(<<>>), Ext("Sub2", <<>>)),
  Rule(SubSrc(<<Id("A"), Id("B")>>), Ext("Sub2", <<Id("A"), Id("B")>>)),
  Rule(SubSrc(<<Id("A"), Id("B")>>), Ext("Sub2", <<Id("B"), Id("A")>>)),
  Rule(SubSrc(<<Id("A"), Id("B")>>), Ext("W", <<Ext("Sub2", <<Id("A"), Ext("V", <<Id("B")>>)>>)>>)),
  Rule(SubSrc(<<Id("A"), Id("B")>>), Ext("Sub2", <<Id("A"), Id("A")>>)),
  Rule(SubSrc(<<Id("A"), Id("B")>>), Ext("Sub2", <<Id("B")>>)),
  Rule(SubSrc(<<Id("A"), Id("B")>>), Ext("Sub2", <<Id("A"), Id("B"), U8T>>)),
  Rule(SubSrc(<<Id("A")>>), Ext("Sub2", <<Id("A")>>)),
  Rule(SubSrc(<<Id("A"), Id("B"), Id("C")>>), Ext("Sub2", <<Id("C"), Id("A")>>)),
  Rule(SubSrc(<<>>), Ext("Sub2", <<U8T>>)),
  \* source parameters on a segment that is not the last one, directly and nested
  Rule(SubSrc(<<Id("A"), Id("B")>>), QPath(TRUE, <<"ext", "Generic", "Output">>, <<<<>>, <<Id("A"), Id("B")>>, <<>>>>)),
  Rule(SubSrc(<<Id("A"), Id("B")>>), Ext("Static", <<QPath(TRUE, <<"ext", "Generic", "Output">>, <<<<>>, <<Id("B")>>, <<>>>>), Id("A")>>)),
  \* declared source parameters that are spelled like the generator's own generic names
  Rule(SubSrc(<<Id("_0"), Id("_1")>>), Ext("Sub2", <<Id("_0"), Id("_1")>>)),
  Rule(SubSrc(<<Id("_1"), Id("_0")>>), Ext("W", <<Ext("Sub2", <<Id("_0"), Id("_1")>>), Id("_1")>>)),
  Rule(SubSrc(<<Id("A"), Id("B")>>), TPath(FALSE, <<"crate", "x", "Sub3">>, <<Id("X"), Id("B")>>)),
  \* relative multi-segment paths whose last segment is spelled like a source parameter are not parameters
  Rule(SubSrc(<<Id("A"), Id("B")>>), Ext("Wrap", <<Id("A"), TPath(FALSE, <<"markers", "A">>, <<>>), Ext("Inner", <<TPath(FALSE, <<"other", "B">>, <<>>), Id("B")>>)>>)) }
MapRule == Rule(TPath(FALSE, <<"BTreeMap">>, <<>>), Ext("Map", <<>>))
MapRule2 == Rule(TPath(FALSE, <<"BTreeMap">>, <<Id("K"), Id("V")>>), Ext("Map", <<Id("V"), Id("K")>>))
SubSettings == {[Base EXCEPT !.subs = <<r>>] : r \in SubRules}
               \cup {[Base EXCEPT !.subs = <<r, MapRule>>] : r \in {Rule(SubSrc(<<>>), Ext("Sub2", <<>>))}}
               \cup {[NoStd EXCEPT !.subs = <<MapRule2, r>>] : r \in {Rule(SubSrc(<<Id("A"), Id("B")>>), Ext("Sub2", <<Id("B"), Id("A")>>))}}
               \* a rule that is replaced by a later one for the same source path
               \cup {[Base EXCEPT !.subs = <<Rule(SubSrc(<<>>), Ext("Old", <<>>)), Rule(SubSrc(<<Id("A"), Id("B")>>), Ext("Sub2", <<Id("B"), Id("A")>>))>>]}
======================================================================================
