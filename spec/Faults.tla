-------------------------------- MODULE Faults --------------------------------
(* Single faults of each documented kind injected at every possible site of a registry     *)
(* (family G4): id mismatch at every entry, a composite/variant mixing named and unnamed   *)
(* fields, compact / bit-sequence path absent from the settings, a dangling id at every    *)
(* parameter, field, variant field, element and inner position.                            *)
EXTENDS Typegen

SetFieldTy(fs, j, v) == [fs EXCEPT ![j].ty = v]
\* all (entry position, mutated entry) pairs with one reference replaced by the missing id `bad`
DanglingAt(e, bad) ==
  {[e EXCEPT !.params[i].ty = bad] : i \in {j \in DOMAIN e.params : e.params[j].ty # -1}}
  \cup (CASE e.def.k = "comp" -> {[e EXCEPT !.def.fields[j].ty = bad] : j \in DOMAIN e.def.fields}
          [] e.def.k = "var" -> UNION {{[e EXCEPT !.def.variants[v].fields[j].ty = bad] : j \in DOMAIN e.def.variants[v].fields} : v \in DOMAIN e.def.variants}
          [] e.def.k \in {"seq", "arr", "compact"} -> {[e EXCEPT !.def.of = bad]}
          [] e.def.k = "tup" -> {[e EXCEPT !.def.elems[j] = bad] : j \in DOMAIN e.def.elems}
          [] e.def.k = "bits" -> {[e EXCEPT !.def.store = bad], [e EXCEPT !.def.order = bad]}
          [] OTHER -> {})
FlipName(f) == [f EXCEPT !.name = IF @ = "" THEN "x" ELSE ""]
MixedAt(e) ==
  CASE e.def.k = "comp" -> IF Len(e.def.fields) < 2 THEN {} ELSE {[e EXCEPT !.def.fields[j] = FlipName(@)] : j \in DOMAIN e.def.fields}
    [] e.def.k = "var" -> UNION {IF Len(e.def.variants[v].fields) < 2 THEN {}
                                 ELSE {[e EXCEPT !.def.variants[v].fields[j] = FlipName(@)] : j \in DOMAIN e.def.variants[v].fields} : v \in DOMAIN e.def.variants}
    [] OTHER -> {}

Fault(kind, reg, S, site) == [kind |-> kind, reg |-> reg, settings |-> S, site |-> site]
FaultsOf(reg, S) ==
  {Fault("IdMismatch", [reg EXCEPT ![k].id = @ + 1], S, k - 1) : k \in DOMAIN reg}
  \cup {Fault("IdMismatch", [reg EXCEPT ![k].id = 0], S, k - 1) : k \in DOMAIN reg \ {1}}
  \cup UNION {{Fault("Dangling", [reg EXCEPT ![k] = e2], S, k - 1) : e2 \in DanglingAt(reg[k], Len(reg) + 3)} : k \in DOMAIN reg}
  \cup UNION {{Fault("Mixed", [reg EXCEPT ![k] = e2], S, k - 1) : e2 \in MixedAt(reg[k])} : k \in DOMAIN reg}
  \cup (IF \E k \in DOMAIN reg : reg[k].def.k = "compact" THEN {Fault("NoCompactPath", reg, [S EXCEPT !.has_compact = FALSE], -1)} ELSE {})
  \cup (IF \E k \in DOMAIN reg : reg[k].def.k = "bits" THEN {Fault("NoBitsPath", reg, [S EXCEPT !.has_bits = FALSE], -1)} ELSE {})

\* the documented error kind of each fault class (or success when the faulted site is never resolved)
AllowedGen(kind) ==
  CASE kind = "IdMismatch" -> {"RegistryTypeIdsInvalid"}
    [] kind = "Dangling" -> {"TypeNotFound", "ok"}
    [] kind = "Mixed" -> {"InvalidFields", "ok"}
    [] kind = "NoCompactPath" -> {"CompactPathNone", "ok"}
    [] kind = "NoBitsPath" -> {"DecodedBitsPathNone", "ok"}
AllowedDedup(kind) == IF kind = "IdMismatch" THEN {"RegistryTypeIdsInvalid"} ELSE {"ok"}
AllowedPath(kind) ==
  CASE kind = "Dangling" -> {"TypeNotFound", "ok"}
    [] kind = "NoCompactPath" -> {"CompactPathNone", "ok"}
    [] kind = "NoBitsPath" -> {"DecodedBitsPathNone", "ok"}
    [] OTHER -> {"ok"}
=================================================================================
