-------------------------------- MODULE TypesEqual --------------------------------
(* Concrete model of utils.rs::types_equal exactly as coded: the two visited sets are      *)
(* threaded through the recursion, `all`/`&&` short-circuit, the generics list is a stack  *)
(* of levels searched innermost-first with global indices.  Known deviations from the      *)
(* ideal are named as sites:                                                               *)
(*   TypesEqual.BothSeen            - both ids seen before (on their own sides) => equal   *)
(*   TypesEqual.NestedGenericIndex  - a difference explained by a *nested* type's own      *)
(*                                    parameter list although the outer type has none      *)
EXTENDS Registry

(* ---- GenericsList: Seq of levels, each a Seq of [id, name] (skipped parameters absent) ---- *)
LevelOf(params) == LET K(p) == p.ty # -1 IN [i \in DOMAIN SelectSeq(params, K) |-> [id |-> SelectSeq(params, K)[i].ty, name |-> SelectSeq(params, K)[i].name]]
Extend(gl, params) == Append(gl, LevelOf(params))
RECURSIVE StartIdx(_, _)
StartIdx(gl, lvl) == IF lvl <= 1 THEN 0 ELSE StartIdx(gl, lvl - 1) + Len(gl[lvl - 1])
FirstPosId(level, id) == LET idx == {i \in DOMAIN level : level[i].id = id} IN
                         IF idx = {} THEN 0 ELSE CHOOSE i \in idx : \A j \in idx : i <= j
FirstPosName(level, n) == LET idx == {i \in DOMAIN level : level[i].name = n} IN
                          IF idx = {} THEN 0 ELSE CHOOSE i \in idx : \A j \in idx : i <= j
\* innermost level first; -1 = None
RECURSIVE IdxForIdFrom(_, _, _)
IdxForIdFrom(gl, lvl, id) ==
  IF lvl = 0 THEN -1
  ELSE LET p == FirstPosId(gl[lvl], id) IN
       IF p > 0 THEN StartIdx(gl, lvl) + p - 1 ELSE IdxForIdFrom(gl, lvl - 1, id)
RECURSIVE IdxForNameFrom(_, _, _)
IdxForNameFrom(gl, lvl, n) ==
  IF lvl = 0 THEN -1
  ELSE LET p == FirstPosName(gl[lvl], n) IN
       IF p > 0 THEN StartIdx(gl, lvl) + p - 1 ELSE IdxForNameFrom(gl, lvl - 1, n)
IdxForId(gl, id) == IdxForIdFrom(gl, Len(gl), id)
IdxForName(gl, n) == IdxForNameFrom(gl, Len(gl), n)

TRes(r, av, bv) == [r |-> r, av |-> av, bv |-> bv, panic |-> FALSE]
TPanic(av, bv) == [r |-> FALSE, av |-> av, bv |-> bv, panic |-> TRUE]

RECURSIVE TEq(_, _, _, _, _, _, _)
RECURSIVE FieldsEq(_, _, _, _, _, _, _, _)
RECURSIVE VariantsEq(_, _, _, _, _, _, _, _)
RECURSIVE ElemsEq(_, _, _, _, _, _, _, _)

\* compare_fields
FieldEq(reg, fa, fb, ap, av, bp, bv) ==
  IF fa.name # fb.name THEN TRes(FALSE, av, bv)
  ELSE LET skippedOrWrapped == IdxForId(ap, fa.ty) = -1 \/ IdxForId(bp, fb.ty) = -1 IN
       IF fa.tn # "" /\ fb.tn # "" /\ ~skippedOrWrapped
       THEN LET ia == IdxForName(ap, fa.tn)
                ib == IdxForName(bp, fb.tn)
            IN TRes(ia # -1 /\ ib # -1 /\ ia = ib, av, bv)
       ELSE TEq(reg, fa.ty, ap, av, fb.ty, bp, bv)

\* fields_equal: length check, then `all` with short-circuit
FieldsEq(reg, fa, fb, i, ap, av, bp, bv) ==
  IF Len(fa) # Len(fb) THEN TRes(FALSE, av, bv)
  ELSE IF i > Len(fa) THEN TRes(TRUE, av, bv)
  ELSE LET r == FieldEq(reg, fa[i], fb[i], ap, av, bp, bv) IN
       IF r.panic \/ ~r.r THEN r ELSE FieldsEq(reg, fa, fb, i + 1, ap, r.av, bp, r.bv)

VariantsEq(reg, va, vb, i, ap, av, bp, bv) ==
  IF i > Len(va) THEN TRes(TRUE, av, bv)
  ELSE IF va[i].name # vb[i].name THEN TRes(FALSE, av, bv)
  ELSE LET r == FieldsEq(reg, va[i].fields, vb[i].fields, 1, ap, av, bp, bv) IN
       IF r.panic \/ ~r.r THEN r ELSE VariantsEq(reg, va, vb, i + 1, ap, r.av, bp, r.bv)

ElemsEq(reg, ea, eb, i, ap, av, bp, bv) ==
  IF i > Len(ea) THEN TRes(TRUE, av, bv)
  ELSE LET r == TEq(reg, ea[i], ap, av, eb[i], bp, bv) IN
       IF r.panic \/ ~r.r THEN r ELSE ElemsEq(reg, ea, eb, i + 1, ap, r.av, bp, r.bv)

TEq(reg, a, ap, av, b, bp, bv) ==
  IF a = b THEN TRes(TRUE, av, bv)
  ELSE
  LET seenA == a \in av
      seenB == b \in bv
      av1 == av \cup {a}
      bv1 == bv \cup {b}
  IN
  IF seenA # seenB THEN TRes(FALSE, av1, bv1)
  ELSE IF seenA THEN TRes(TRUE, av1, bv1)                                   \* site TypesEqual.BothSeen
  ELSE IF ~HasId(reg, a) \/ ~HasId(reg, b) THEN TPanic(av1, bv1)          \* expect("type should exist")
  ELSE
  LET ai == IdxForId(ap, a)
      bi == IdxForId(bp, b)
      ta == Ty(reg, a)
      tb == Ty(reg, b)
      ap2 == Extend(ap, ta.params)
      bp2 == Extend(bp, tb.params)
      da == ta.def
      db == tb.def
  IN
  IF ai # -1 /\ bi # -1 /\ ai = bi THEN TRes(TRUE, av1, bv1)
  ELSE IF ta.path # tb.path THEN TRes(FALSE, av1, bv1)
  ELSE IF da.k # db.k THEN TRes(FALSE, av1, bv1)
  ELSE
  CASE da.k = "comp" -> FieldsEq(reg, da.fields, db.fields, 1, ap2, av1, bp2, bv1)       \* site TypesEqual.NestedGenericIndex (ap2/bp2)
    [] da.k = "var"  -> IF Len(da.variants) # Len(db.variants) THEN TRes(FALSE, av1, bv1)
                        ELSE VariantsEq(reg, da.variants, db.variants, 1, ap2, av1, bp2, bv1)
    [] da.k = "seq"  -> TEq(reg, da.of, ap2, av1, db.of, bp2, bv1)
    [] da.k = "arr"  -> IF da.len # db.len THEN TRes(FALSE, av1, bv1) ELSE TEq(reg, da.of, ap2, av1, db.of, bp2, bv1)
    [] da.k = "tup"  -> IF Len(da.elems) # Len(db.elems) THEN TRes(FALSE, av1, bv1)
                        ELSE ElemsEq(reg, da.elems, db.elems, 1, ap2, av1, bp2, bv1)
    [] da.k = "prim" -> TRes(da.p = db.p, av1, bv1)
    [] da.k = "compact" -> TEq(reg, da.of, ap2, av1, db.of, bp2, bv1)
    [] da.k = "bits" -> LET ro == TEq(reg, da.order, ap2, av1, db.order, bp2, bv1) IN      \* both evaluated, no short-circuit
                        IF ro.panic THEN ro
                        ELSE LET rs == TEq(reg, da.store, ap2, ro.av, db.store, bp2, ro.bv) IN
                             IF rs.panic THEN rs ELSE TRes(ro.r /\ rs.r, rs.av, rs.bv)
    [] OTHER -> TRes(FALSE, av1, bv1)

TypesEqualRes(reg, a, b) == TEq(reg, a, <<>>, {}, b, <<>>, {})
TypesEqual(reg, a, b) == TypesEqualRes(reg, a, b).r
==================================================================================
