-------------------------------- MODULE ScaleInfo --------------------------------
(* Environment model: how scale-info 2.11.5 turns Rust definitions into a PortableRegistry. *)
(* Source programs are values (Program); Register interns closed type expressions        *)
(* pre-order (the type itself, then its parameters, then its fields), erases Box, maps    *)
(* Vec/VecDeque/slices to a sequence and String/str to the str primitive, drops           *)
(* PhantomData fields and records the source text of each field type as its type name.    *)
(* The model is itself conformance-checked against the real derive (check E0).            *)
(*                                                                                         *)
(*  expr = [k|->"prim",p] | [k|->"param",name] | [k|->"vec",of] | [k|->"vecdeque",of]      *)
(*       | [k|->"arr",of,len] | [k|->"tup",elems] | [k|->"opt",of] | [k|->"res",ok,err]    *)
(*       | [k|->"box",of] | [k|->"cow",of] | [k|->"compact",of] | [k|->"btmap",key,val]    *)
(*       | [k|->"btset",of] | [k|->"heap",of] | [k|->"range",of] | [k|->"rangei",of]       *)
(*       | [k|->"nz",p] | [k|->"dur"] | [k|->"bits",store,order] | [k|->"adt",name,args]   *)
(*       | [k|->"assoc",param,name] | [k|->"phantom",of]                                   *)
(*  def  = [name, ident (last path segment), mod, kind ("struct"|"enum"), params: Seq([name,skipped]),                *)
(*          fields: Seq([name,ty,compact,docs]), variants: Seq([name,index,fields,docs]), docs] *)
(*  program = [defs: Seq(def), cfgs: Seq([name, assoc: Seq([name, ty])])]                  *)
EXTENDS Registry

P_Prim(p) == [k |-> "prim", p |-> p]
P_Param(n) == [k |-> "param", name |-> n]
P_Vec(e) == [k |-> "vec", of |-> e]
P_VecDeque(e) == [k |-> "vecdeque", of |-> e]
P_Arr(e, n) == [k |-> "arr", of |-> e, len |-> n]
P_Tup(es) == [k |-> "tup", elems |-> es]
P_Opt(e) == [k |-> "opt", of |-> e]
P_Res(a, b) == [k |-> "res", ok |-> a, err |-> b]
P_Box(e) == [k |-> "box", of |-> e]
P_Cow(e) == [k |-> "cow", of |-> e]
P_Compact(e) == [k |-> "compact", of |-> e]
P_BTreeMap(a, b) == [k |-> "btmap", key |-> a, val |-> b]
P_BTreeSet(e) == [k |-> "btset", of |-> e]
P_Heap(e) == [k |-> "heap", of |-> e]
P_Range(e) == [k |-> "range", of |-> e]
P_RangeI(e) == [k |-> "rangei", of |-> e]
P_NZ(p) == [k |-> "nz", p |-> p]
P_Dur == [k |-> "dur"]
P_Bits(s, o) == [k |-> "bits", store |-> s, order |-> o]
\* a bit sequence whose store / order are type expressions (parameters of the enclosing definition); P_Order: the marker types
P_BitsG(s, o) == [k |-> "bitsg", store |-> s, order |-> o]
P_Order(n) == [k |-> "order", name |-> n]
P_Adt(n, args) == [k |-> "adt", name |-> n, args |-> args]
P_Assoc(p, n) == [k |-> "assoc", param |-> p, name |-> n]
P_Phantom(e) == [k |-> "phantom", of |-> e]

DefOf(P, name) == P.defs[CHOOSE i \in DOMAIN P.defs : P.defs[i].name = name]
HasDef(P, name) == \E i \in DOMAIN P.defs : P.defs[i].name = name
CfgOf(P, name) == P.cfgs[CHOOSE i \in DOMAIN P.cfgs : P.cfgs[i].name = name]
AssocOf(P, cfg, an) == LET c == CfgOf(P, cfg) IN c.assoc[CHOOSE i \in DOMAIN c.assoc : c.assoc[i].name = an].ty

NZName(p) == CASE p = "u8" -> "NonZeroU8" [] p = "u16" -> "NonZeroU16" [] p = "u32" -> "NonZeroU32"
               [] p = "u64" -> "NonZeroU64" [] p = "u128" -> "NonZeroU128" [] p = "i8" -> "NonZeroI8"
               [] p = "i16" -> "NonZeroI16" [] p = "i32" -> "NonZeroI32" [] p = "i64" -> "NonZeroI64"
               [] p = "i128" -> "NonZeroI128"

(* ---- source text of a type expression (becomes the field's type name) ---- *)
RECURSIVE Render(_)
RenderList(es) == JoinWith([i \in DOMAIN es |-> Render(es[i])], ", ")
Render(e) ==
  CASE e.k = "prim"     -> IF e.p = "str" THEN "String" ELSE e.p
    [] e.k = "param"    -> e.name
    [] e.k = "vec"      -> "Vec<" \o Render(e.of) \o ">"
    [] e.k = "vecdeque" -> "VecDeque<" \o Render(e.of) \o ">"
    [] e.k = "arr"      -> "[" \o Render(e.of) \o "; " \o ToString(e.len) \o "]"
    [] e.k = "tup"      -> IF Len(e.elems) = 1 THEN "(" \o Render(e.elems[1]) \o ",)"
                           ELSE "(" \o RenderList(e.elems) \o ")"
    [] e.k = "opt"      -> "Option<" \o Render(e.of) \o ">"
    [] e.k = "res"      -> "Result<" \o Render(e.ok) \o ", " \o Render(e.err) \o ">"
    [] e.k = "box"      -> "Box<" \o Render(e.of) \o ">"
    [] e.k = "cow"      -> "Cow<'static, " \o Render(e.of) \o ">"
    [] e.k = "compact"  -> "Compact<" \o Render(e.of) \o ">"
    [] e.k = "btmap"    -> "BTreeMap<" \o Render(e.key) \o ", " \o Render(e.val) \o ">"
    [] e.k = "btset"    -> "BTreeSet<" \o Render(e.of) \o ">"
    [] e.k = "heap"     -> "BinaryHeap<" \o Render(e.of) \o ">"
    [] e.k = "range"    -> "Range<" \o Render(e.of) \o ">"
    [] e.k = "rangei"   -> "RangeInclusive<" \o Render(e.of) \o ">"
    [] e.k = "nz"       -> NZName(e.p)
    [] e.k = "dur"      -> "Duration"
    [] e.k = "bits"     -> "BitVec<" \o e.store \o ", " \o e.order \o ">"
    [] e.k = "bitsg"    -> "BitVec<" \o Render(e.store) \o ", " \o Render(e.order) \o ">"
    [] e.k = "order"    -> e.name
    [] e.k = "adt"      -> IF Len(e.args) = 0 THEN e.name ELSE e.name \o "<" \o RenderList(e.args) \o ">"
    [] e.k = "assoc"    -> e.param \o "::" \o e.name
    [] e.k = "phantom"  -> "PhantomData<" \o Render(e.of) \o ">"

(* ---- substitution of parameters (env: Seq of [name, ty]) and associated types ---- *)
EnvGet(env, n) == env[CHOOSE i \in DOMAIN env : env[i].name = n].ty
EnvHas(env, n) == \E i \in DOMAIN env : env[i].name = n

RECURSIVE Subst(_, _, _)
SubstList(P, es, env) == [i \in DOMAIN es |-> Subst(P, es[i], env)]
Subst(P, e, env) ==
  CASE e.k = "param"    -> IF EnvHas(env, e.name) THEN EnvGet(env, e.name) ELSE e
    [] e.k = "assoc"    -> IF EnvHas(env, e.param) THEN AssocOf(P, EnvGet(env, e.param).name, e.name) ELSE e
    [] e.k \in {"vec", "vecdeque", "opt", "box", "cow", "compact", "btset", "heap", "range", "rangei", "phantom"}
                        -> [e EXCEPT !.of = Subst(P, @, env)]
    [] e.k = "arr"      -> [e EXCEPT !.of = Subst(P, @, env)]
    [] e.k = "tup"      -> [e EXCEPT !.elems = SubstList(P, @, env)]
    [] e.k = "res"      -> [e EXCEPT !.ok = Subst(P, @, env), !.err = Subst(P, @, env)]
    [] e.k = "btmap"    -> [e EXCEPT !.key = Subst(P, @, env), !.val = Subst(P, @, env)]
    [] e.k = "adt"      -> [e EXCEPT !.args = SubstList(P, @, env)]
    [] e.k = "bitsg"    -> [e EXCEPT !.store = Subst(P, @, env), !.order = Subst(P, @, env)]
    [] OTHER            -> e

(* ---- identity of a closed type: an outer Box is erased, Vec/VecDeque/slices are one ---- *)
(* sequence type, String = str.  Only the outermost constructor is normalised: scale-info ---- *)
(* interns by the Rust TypeId of the identity type, so Vec<Box<u8>> and Vec<u8> are two ---- *)
(* sequence entries (with the same element id).                                          *)
RECURSIVE Norm(_)
Norm(e) ==
  CASE e.k = "box"      -> Norm(e.of)
    [] e.k \in {"vec", "vecdeque"} -> [k |-> "seq", of |-> e.of]
    [] e.k = "bitsg" /\ e.store.k = "prim" /\ e.order.k = "order" -> [k |-> "bits", store |-> e.store.p, order |-> e.order.name]
    [] OTHER            -> e

Seq_(e) == [k |-> "seq", of |-> e]

F(name, ty, tn) == [name |-> name, ty |-> ty, tn |-> tn, docs |-> <<>>]
Entry(id, path, params, def, docs) == [id |-> id, path |-> path, params |-> params, def |-> def, docs |-> docs]
Placeholder == [id |-> -1, path |-> <<>>, params |-> <<>>, def |-> [k |-> "prim", p |-> "bool"], docs |-> <<>>]

EmptySt == [keys |-> <<>>, types |-> <<>>]
SetType(st, id, e) == [st EXCEPT !.types = [@ EXCEPT ![id + 1] = e]]

(* Register a closed expression; returns [st, id]. *)
RECURSIVE RegN(_, _, _)
RECURSIVE RegListN(_, _, _, _)
RECURSIVE RegFields(_, _, _, _, _)
RECURSIVE RegVariants(_, _, _, _, _)

RegListN(P, st, es, acc) ==
  IF Len(es) = 0 THEN [st |-> st, ids |-> acc]
  ELSE LET r == RegN(P, st, Head(es)) IN RegListN(P, r.st, Tail(es), Append(acc, r.id))

\* fields of a definition under env: PhantomData fields are dropped
RegFields(P, st, fs, env, acc) ==
  IF Len(fs) = 0 THEN [st |-> st, fields |-> acc]
  ELSE LET f == Head(fs) IN
       IF f.ty.k = "phantom" THEN RegFields(P, st, Tail(fs), env, acc)
       ELSE LET closed == Subst(P, f.ty, env)
                r == RegN(P, st, IF f.compact THEN [k |-> "compact", of |-> closed] ELSE closed)
            IN RegFields(P, r.st, Tail(fs), env,
                         Append(acc, [name |-> f.name, ty |-> r.id, tn |-> Render(f.ty), docs |-> f.docs]))

RegVariants(P, st, vs, env, acc) ==
  IF Len(vs) = 0 THEN [st |-> st, variants |-> acc]
  ELSE LET v == Head(vs)
           r == RegFields(P, st, v.fields, env, <<>>)
       IN RegVariants(P, r.st, Tail(vs), env,
                      Append(acc, [name |-> v.name, index |-> v.index, fields |-> r.fields, docs |-> v.docs]))

RegN(P, st, e0) ==
  LET e == Norm(e0)
      pos == IndexOf(st.keys, e, 1) IN
  IF pos > 0 THEN [st |-> st, id |-> pos - 1]
  ELSE
  LET id == Len(st.keys)
      st0 == [keys |-> Append(st.keys, e), types |-> Append(st.types, Placeholder)]
      Done(s, entry) == [st |-> SetType(s, id, entry), id |-> id]
      \* generic prelude wrapper with one parameter T and one unnamed field of type `inner`
      Prelude1(name, pname, argE, innerE) ==
        LET r1 == RegN(P, st0, argE)
            r2 == RegN(P, r1.st, innerE)
        IN Done(r2.st, Entry(id, <<name>>, <<[name |-> pname, ty |-> r1.id]>>,
                             [k |-> "comp", fields |-> <<F("", r2.id, "")>>], <<>>))
  IN
  CASE e.k = "prim" -> Done(st0, Entry(id, <<>>, <<>>, [k |-> "prim", p |-> e.p], <<>>))
    [] e.k = "seq" -> LET r == RegN(P, st0, e.of) IN Done(r.st, Entry(id, <<>>, <<>>, [k |-> "seq", of |-> r.id], <<>>))
    [] e.k = "arr" -> LET r == RegN(P, st0, e.of) IN Done(r.st, Entry(id, <<>>, <<>>, [k |-> "arr", of |-> r.id, len |-> e.len], <<>>))
    [] e.k = "tup" -> LET r == RegListN(P, st0, e.elems, <<>>) IN Done(r.st, Entry(id, <<>>, <<>>, [k |-> "tup", elems |-> r.ids], <<>>))
    [] e.k = "compact" -> LET r == RegN(P, st0, e.of) IN Done(r.st, Entry(id, <<>>, <<>>, [k |-> "compact", of |-> r.id], <<>>))
    [] e.k = "opt" ->
         LET r == RegN(P, st0, e.of) IN
         Done(r.st, Entry(id, <<"Option">>, <<[name |-> "T", ty |-> r.id]>>,
                          [k |-> "var", variants |-> <<[name |-> "None", index |-> 0, fields |-> <<>>, docs |-> <<>>],
                                                        [name |-> "Some", index |-> 1, fields |-> <<F("", r.id, "")>>, docs |-> <<>>]>>], <<>>))
    [] e.k = "res" ->
         LET r1 == RegN(P, st0, e.ok)
             r2 == RegN(P, r1.st, e.err) IN
         Done(r2.st, Entry(id, <<"Result">>, <<[name |-> "T", ty |-> r1.id], [name |-> "E", ty |-> r2.id]>>,
                           [k |-> "var", variants |-> <<[name |-> "Ok", index |-> 0, fields |-> <<F("", r1.id, "")>>, docs |-> <<>>],
                                                         [name |-> "Err", index |-> 1, fields |-> <<F("", r2.id, "")>>, docs |-> <<>>]>>], <<>>))
    [] e.k = "cow"   -> Prelude1("Cow", "T", e.of, e.of)
    [] e.k = "btset" -> Prelude1("BTreeSet", "T", e.of, Seq_(e.of))
    [] e.k = "heap"  -> Prelude1("BinaryHeap", "T", e.of, Seq_(e.of))
    [] e.k = "btmap" ->
         LET r1 == RegN(P, st0, e.key)
             r2 == RegN(P, r1.st, e.val)
             r3 == RegN(P, r2.st, Seq_([k |-> "tup", elems |-> <<e.key, e.val>>])) IN
         Done(r3.st, Entry(id, <<"BTreeMap">>, <<[name |-> "K", ty |-> r1.id], [name |-> "V", ty |-> r2.id]>>,
                           [k |-> "comp", fields |-> <<F("", r3.id, "")>>], <<>>))
    [] e.k \in {"range", "rangei"} ->
         LET r == RegN(P, st0, e.of) IN
         Done(r.st, Entry(id, <<IF e.k = "range" THEN "Range" ELSE "RangeInclusive">>, <<[name |-> "Idx", ty |-> r.id]>>,
                          [k |-> "comp", fields |-> <<F("start", r.id, "Idx"), F("end", r.id, "Idx")>>], <<>>))
    [] e.k = "nz" ->
         LET r == RegN(P, st0, [k |-> "prim", p |-> e.p]) IN
         Done(r.st, Entry(id, <<NZName(e.p)>>, <<>>, [k |-> "comp", fields |-> <<F("", r.id, "")>>], <<>>))
    [] e.k = "dur" ->
         LET r1 == RegN(P, st0, [k |-> "prim", p |-> "u64"])
             r2 == RegN(P, r1.st, [k |-> "prim", p |-> "u32"]) IN
         Done(r2.st, Entry(id, <<"Duration">>, <<>>, [k |-> "comp", fields |-> <<F("", r1.id, "u64"), F("", r2.id, "u32")>>], <<>>))
    [] e.k = "bits" ->
         LET r1 == RegN(P, st0, [k |-> "prim", p |-> e.store])
             r2 == RegN(P, r1.st, [k |-> "order", name |-> e.order]) IN
         Done(r2.st, Entry(id, <<>>, <<>>, [k |-> "bits", store |-> r1.id, order |-> r2.id], <<>>))
    [] e.k = "order" -> Done(st0, Entry(id, <<"bitvec", "order", e.name>>, <<>>, [k |-> "comp", fields |-> <<>>], <<>>))
    [] e.k = "adt" ->
         LET d == DefOf(P, e.name)
             env == [i \in DOMAIN d.params |-> [name |-> d.params[i].name, ty |-> e.args[i]]]
             \* parameters first (skipped ones carry no type and register nothing)
             live == {i \in DOMAIN d.params : ~d.params[i].skipped}
             RECURSIVE RegParams(_, _, _)
             RegParams(s, i, acc) ==
               IF i > Len(d.params) THEN [st |-> s, params |-> acc]
               ELSE IF d.params[i].skipped THEN RegParams(s, i + 1, Append(acc, [name |-> d.params[i].name, ty |-> -1]))
               ELSE LET r == RegN(P, s, e.args[i]) IN RegParams(r.st, i + 1, Append(acc, [name |-> d.params[i].name, ty |-> r.id]))
             rp == RegParams(st0, 1, <<>>)
         IN IF d.kind = "struct"
            THEN LET rf == RegFields(P, rp.st, d.fields, env, <<>>) IN
                 Done(rf.st, Entry(id, d.mod \o <<d.ident>>, rp.params, [k |-> "comp", fields |-> rf.fields], d.docs))
            ELSE LET rv == RegVariants(P, rp.st, d.variants, env, <<>>) IN
                 Done(rv.st, Entry(id, d.mod \o <<d.ident>>, rp.params, [k |-> "var", variants |-> rv.variants], d.docs))

(* Register a list of closed root expressions into one registry. *)
RECURSIVE RegisterRoots(_, _, _, _)
RegisterRoots(P, st, roots, acc) ==
  IF Len(roots) = 0 THEN [reg |-> st.types, roots |-> acc]
  ELSE LET r == RegN(P, st, Norm(Head(roots))) IN RegisterRoots(P, r.st, Tail(roots), Append(acc, r.id))

Register(P, roots) == RegisterRoots(P, EmptySt, roots, <<>>)

(* convenience constructors for programs *)
SField(name, ty) == [name |-> name, ty |-> ty, compact |-> FALSE, docs |-> <<>>]
CField(name, ty) == [name |-> name, ty |-> ty, compact |-> TRUE, docs |-> <<>>]
Param(n) == [name |-> n, skipped |-> FALSE]
Skipped(n) == [name |-> n, skipped |-> TRUE]
Struct(name, mod, params, fields) ==
  [name |-> name, ident |-> name, mod |-> mod, kind |-> "struct", params |-> params, fields |-> fields, variants |-> <<>>, docs |-> <<>>]
Enum(name, mod, params, variants) ==
  [name |-> name, ident |-> name, mod |-> mod, kind |-> "enum", params |-> params, fields |-> <<>>, variants |-> variants, docs |-> <<>>]
\* a second definition registered under the path of another one ("two versions of one crate")
Versioned(d, ident) == [d EXCEPT !.ident = ident]
Variant(name, index, fields) == [name |-> name, index |-> index, fields |-> fields, docs |-> <<>>]
Program(defs, cfgs) == [defs |-> defs, cfgs |-> cfgs]
==================================================================================
