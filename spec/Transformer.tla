-------------------------------- MODULE Transformer --------------------------------
(* description/src/transformer.rs: the cache + recursion protocol shared by type descriptions  *)
(* and the two example generators, as a state machine over the hook events of                 *)
(* Transformer::resolve:  enter{id, cache} / short{id, ok} / exit{id}.                         *)
(*   cache[id] in {"miss", "recursive", "computed"}; stack = ids whose policy is running.      *)
(* Policy parameters:  onRecursion in {"name", "error"}  (name: named types short-circuit with *)
(* their name, unnamed types continue; error: short-circuit with an error),                    *)
(* onHit in {"name", "recompute"} (name: short-circuit with name / cached text; recompute:     *)
(* continue as on a miss).                                                                     *)
EXTENDS Registry

TInit == [cache |-> <<>>, stack |-> <<>>, failed |-> FALSE, pendingShort |-> -1]
\* cache as a sequence of [id, st] records (small)
CacheOf(t, id) == LET idx == {i \in DOMAIN t.cache : t.cache[i].id = id} IN
                  IF idx = {} THEN "miss" ELSE t.cache[CHOOSE i \in idx : TRUE].st
SetCache(t, id, st) ==
  LET idx == {i \in DOMAIN t.cache : t.cache[i].id = id} IN
  IF idx = {} THEN [t EXCEPT !.cache = Append(@, [id |-> id, st |-> st])]
  ELSE [t EXCEPT !.cache = [i \in DOMAIN @ |-> IF @[i].id = id THEN [id |-> id, st |-> st] ELSE @[i]]]

IsNamed(reg, id) == Len(Ty(reg, id).path) > 0

\* does resolve short-circuit in this cache state?
ShortCircuits(reg, id, cst, onRecursion, onHit) ==
  CASE cst = "recursive" -> IF onRecursion = "error" THEN TRUE ELSE IsNamed(reg, id)
    [] cst = "computed"  -> onHit = "name"
    [] OTHER -> FALSE
ShortOk(cst, onRecursion) == ~(cst = "recursive" /\ onRecursion = "error")

\* ids a running policy may resolve next.  `direct`: the Rust-value policy computes sequence and array elements by calling
\* itself directly (not through resolve), so the element type's own children appear under the sequence / array
RECURSIVE AllowedChildren(_, _, _, _)
AllowedChildren(reg, id, direct, fuel) ==
  IF ~HasId(reg, id) \/ fuel = 0 THEN {}
  ELSE LET d == Ty(reg, id).def IN
       IF direct /\ d.k \in {"seq", "arr"} THEN AllowedChildren(reg, d.of, direct, fuel - 1) ELSE EntryRefs(Ty(reg, id))

(* actions; each returns the next state, or is disabled (guard false) *)
EnterOK(reg, t, id, cst, direct) ==
  /\ HasId(reg, id) /\ ~t.failed /\ t.pendingShort = -1 /\ cst = CacheOf(t, id)
  \* a nested resolve is issued by the policy of the type on top of the stack, for one of the ids it refers to
  /\ (Len(t.stack) > 0 => id \in AllowedChildren(reg, t.stack[Len(t.stack)], direct, Len(reg) + 1))
Enter(reg, t, id, cst, onRecursion, onHit) ==
  IF ShortCircuits(reg, id, cst, onRecursion, onHit) THEN [t EXCEPT !.pendingShort = id]
  ELSE [SetCache(t, id, "recursive") EXCEPT !.stack = Append(@, id)]
ShortEvOK(t, id, ok, onRecursion) == t.pendingShort = id /\ ok = ShortOk(CacheOf(t, id), onRecursion)
ShortEv(t, id, ok) == [t EXCEPT !.pendingShort = -1, !.failed = ~ok]
ExitOK(t, id) == ~t.failed /\ t.pendingShort = -1 /\ Len(t.stack) > 0 /\ t.stack[Len(t.stack)] = id
Exit(t, id) == [SetCache(t, id, "computed") EXCEPT !.stack = Front(@)]

\* invariants of the protocol
NoIdTwiceOnStackUnlessUnnamed(reg, t) == \A i, j \in DOMAIN t.stack : (i # j /\ t.stack[i] = t.stack[j]) => ~IsNamed(reg, t.stack[i])
StackBounded(reg, t) == Len(t.stack) <= 2 * Len(reg) + 2
=====================================================================================
