-------------------------------- MODULE TV_C06 --------------------------------
(* Determinism on the implementation: every run of a case registers the same derives, attributes *)
(* and substitutes in a different order (orders chosen by MC_C06); each run is repeated in-process *)
(* with freshly built settings (fresh hash seeds) and in fresh processes.  All token fingerprints   *)
(* must be equal, all derive / attribute lists strictly increasing by token string, the            *)
(* de-duplicated registries equal, the validation results equal as sets.                           *)
EXTENDS Registry, RustSem, Json, IOUtils

Obs == ndJsonDeserialize(IOEnv.OBS)
VARIABLE c
Init == c \in 1..Len(Obs)
Next == UNCHANGED c
Spec == Init /\ [][Next]_c
O == Obs[c]
R1 == O.runs[1]

RECURSIVE CodesLess(_, _, _)
CodesLess(a, b, i) == IF i > Len(a) THEN i <= Len(b)
                      ELSE IF i > Len(b) THEN FALSE
                      ELSE IF a[i] < b[i] THEN TRUE ELSE IF a[i] > b[i] THEN FALSE ELSE CodesLess(a, b, i + 1)
StrictlySorted(list) == \A i \in 1..(Len(list) - 1) : CodesLess(list[i], list[i + 1], 1)
ItemsOfRun(k) == AllItems(RootOf(O.runs[k].gen.module))
AllFps(k) == {O.runs[k].gen.fp} \cup {O.runs[k].repeat[i].fp : i \in DOMAIN O.runs[k].repeat} \cup {O.runs[k].fresh[i].fp : i \in DOMAIN O.runs[k].fresh}
AllRes(k) == {O.runs[k].gen.res} \cup {O.runs[k].repeat[i].res : i \in DOMAIN O.runs[k].repeat} \cup {O.runs[k].fresh[i].res : i \in DOMAIN O.runs[k].fresh}
ValSet(v) == [res |-> v.res,
              d |-> {<<v.derives_unknown[i].path, RangeOf(v.derives_unknown[i].items)>> : i \in DOMAIN v.derives_unknown},
              a |-> {<<v.attrs_unknown[i].path, RangeOf(v.attrs_unknown[i].items)>> : i \in DOMAIN v.attrs_unknown},
              s |-> {<<v.subs_unknown[i].src, v.subs_unknown[i].dst>> : i \in DOMAIN v.subs_unknown}]
Failed ==
  (IF \A k \in DOMAIN O.runs : AllFps(k) = {R1.gen.fp} /\ AllRes(k) = {R1.gen.res} THEN {} ELSE {"C06.TokenIdentical"})
  \cup (IF \A k \in DOMAIN O.runs : O.runs[k].gen.res = "ok" =>
             \A j \in DOMAIN ItemsOfRun(k) : StrictlySorted(ItemsOfRun(k)[j].it.derive_codes) /\ StrictlySorted(ItemsOfRun(k)[j].it.attr_codes)
                                             /\ ItemsOfRun(k)[j].it.n_derive_attrs <= 1
        THEN {} ELSE {"C06.ListsSortedNoDuplicates"})
  \cup (IF \A k \in DOMAIN O.runs : O.runs[k].dedup.res = R1.dedup.res /\ O.runs[k].dedup.reg = R1.dedup.reg THEN {} ELSE {"C06.DedupDeterministic"})
  \cup (IF \A k \in DOMAIN O.runs : \A i \in DOMAIN O.runs[k].validation : ValSet(O.runs[k].validation[i]) = ValSet(R1.validation[1]) THEN {} ELSE {"C06.ValidationAsSets"})

Verdict == PrintT("V " \o ToJson([case |-> O.case, failed |-> Failed, known |-> {}, drift |-> FALSE, fp |-> R1.gen.fp,
                                  nontrivial |-> R1.gen.res = "ok" /\ \E j \in DOMAIN ItemsOfRun(1) : Len(ItemsOfRun(1)[j].it.derives) > 1]))
=================================================================================
