-------------------------------- MODULE TV_Fault --------------------------------
(* Judgement of fault-injection runs (family G4): the result of generation, of path        *)
(* de-duplication and of resolve_type_path for every id on a registry with one injected    *)
(* fault must be the documented error kind - as evaluated, in evaluation order, by the     *)
(* specification - with the documented payload, and never a panic.                         *)
EXTENDS Dedup, Faults, Json, IOUtils

Obs == ndJsonDeserialize(IOEnv.OBS)
VARIABLE c
Init == c \in 1..Len(Obs)
Next == UNCHANGED c
Spec == Init /\ [][Next]_c

O == Obs[c]
Run == O.runs[1]
In == O.input.runs[1]
Reg == In.reg
S == In.settings
Kind == O.input.kind

G == Generate(Reg, S)
D == DedupRun(Reg)
P(id) == ResolveTypePath(Reg, S, id)
PRes(id) == IF P(id).err = "" THEN "ok" ELSE P(id).err

Failed ==
  (IF Run.gen.res = "panic" \/ Run.dedup.res = "panic" \/ \E i \in DOMAIN Run.paths : Run.paths[i].res = "panic" THEN {"C10.NoPanic"} ELSE {})
  \* the documented kind of the fault class (abstract), and exactly the outcome the specification derives in evaluation order
  \cup (IF Run.gen.res \in AllowedGen(Kind) THEN {} ELSE {"C10.GenKindOfFaultClass"})
  \cup (IF Run.dedup.res \in AllowedDedup(Kind) THEN {} ELSE {"C10.DedupKindOfFaultClass"})
  \cup (IF \A i \in DOMAIN Run.paths : Run.paths[i].res \in AllowedPath(Kind) THEN {} ELSE {"C10.PathKindOfFaultClass"})
  \cup (IF Run.gen.res = G.res THEN {} ELSE {"C10.GenResult"})
  \cup (IF G.res = "TypeNotFound" /\ Run.gen.res = "TypeNotFound" /\ Run.gen.id # G.errid THEN {"C10.TypeNotFoundNamesId"} ELSE {})
  \cup (IF G.res = "RegistryTypeIdsInvalid" /\ Run.gen.res = G.res /\ (Run.gen.given # G.given \/ Run.gen.expected # G.expected) THEN {"C10.IdMismatchPayload"} ELSE {})
  \cup (IF Run.dedup.res = D.res THEN {} ELSE {"C10.DedupResult"})
  \cup (IF D.res = "RegistryTypeIdsInvalid" /\ Run.dedup.res = D.res /\ (Run.dedup.given # D.given \/ Run.dedup.expected # D.expected) THEN {"C10.DedupIdMismatchPayload"} ELSE {})
  \cup (IF \A id \in Ids(Reg) : Run.paths[id + 1].res = PRes(id) /\ (PRes(id) = "TypeNotFound" => Run.paths[id + 1].id = P(id).errid) THEN {} ELSE {"C10.ResolvePathResult"})

Verdict == PrintT("V " \o ToJson([case |-> O.case, failed |-> Failed, kind |-> Kind, gen |-> Run.gen.res, expect |-> G.res,
                                  known |-> {}, drift |-> FALSE]))
=================================================================================
