-------------------------------- MODULE TV_C11 --------------------------------
(* Judgement of validate_substitutes_and_derives_against_registry and similar_type_paths_in_registry. *)
EXTENDS SettingsBuilder, Json, IOUtils

Obs == ndJsonDeserialize(IOEnv.OBS)
VARIABLE c
Init == c \in 1..Len(Obs)
Next == UNCHANGED c
Spec == Init /\ [][Next]_c

O == Obs[c]
Reg == O.input.reg
S == O.input.settings
RulesMap == RulesOfHistory([i \in DOMAIN S.subs |-> SubCall("insert", S.subs[i].src, S.subs[i].dst, "ok", "ok")], 1, <<>>)

AsSetOf(list) == {<<list[i].path, RangeOf(list[i].items)>> : i \in DOMAIN list}
OncePerPath(list) == \A i, j \in DOMAIN list : i # j => list[i].path # list[j].path
RunFailed(r) ==
  (IF r.res = "panic" THEN {"C11.NoPanic"} ELSE {})
  \cup (IF (r.res = "ok") <=> RefValid(Reg, S, RulesMap) THEN {} ELSE {"C11.OkIffAllKnown"})
  \cup (IF AsSetOf(r.derives_unknown) = RefDerivesUnknown(Reg, S) /\ OncePerPath(r.derives_unknown) THEN {} ELSE {"C11.DerivesForUnknown"})
  \cup (IF AsSetOf(r.attrs_unknown) = RefAttrsUnknown(Reg, S) /\ OncePerPath(r.attrs_unknown) THEN {} ELSE {"C11.AttributesForUnknown"})
  \cup (IF {<<r.subs_unknown[i].src, r.subs_unknown[i].dst>> : i \in DOMAIN r.subs_unknown} = RefSubsUnknown(Reg, RulesMap)
           /\ Len(r.subs_unknown) = Cardinality(RefSubsUnknown(Reg, RulesMap)) THEN {} ELSE {"C11.SubstitutesForUnknown"})
SimilarFailed ==
  IF \A q \in DOMAIN O.similar :
       /\ O.similar[q].res = "ok"
       /\ Dedupe(O.similar[q].paths, 1, <<>>) = [i \in DOMAIN RefSimilar(Reg, O.input.queries[q].segs) |-> PathStr(RefSimilar(Reg, O.input.queries[q].segs)[i])]
  THEN {} ELSE {"C11.SimilarPaths"}
Failed == UNION {RunFailed(O.runs[k]) : k \in DOMAIN O.runs} \cup SimilarFailed
          \* validation results of repeated runs (fresh maps) are equal as sets (C06)
          \cup (IF \A k \in DOMAIN O.runs : AsSetOf(O.runs[k].derives_unknown) = AsSetOf(O.runs[1].derives_unknown) /\ O.runs[k].res = O.runs[1].res THEN {} ELSE {"C06.ValidationDeterministic"})

Verdict == PrintT("V " \o ToJson([case |-> O.case, failed |-> Failed, known |-> {}, drift |-> FALSE,
                                  nontrivial |-> UnknownPaths(Reg, S) # {} \/ RefSubsUnknown(Reg, RulesMap) # {}]))
=================================================================================
