-------------------------------- MODULE TV_Dedup --------------------------------
(* Trace validation of ensure_unique_type_paths against Dedup.tla and judgement of the      *)
(* de-duplication contract (C04) and of "no silent conflation" after de-duplication (C03).  *)
(* Observations come from harness mode `gen` with "dedup": true: the registry after the     *)
(* first run with its hook events (group / rename), generation on the de-duplicated         *)
(* registry, and the registry after a second run.                                           *)
EXTENDS Dedup, Json, IOUtils

Obs == ndJsonDeserialize(IOEnv.OBS)

VARIABLES c, l, dst, rejected
vars == <<c, l, dst, rejected>>

O == Obs[c]
Run == O.runs[1]
In == O.input.runs[1]
Reg == In.reg
S == In.settings
Evs == Run.dedup.events
HasEv == l < Len(Evs)

\* silent steps: entries without a namespace produce no event; phase changes produce none
RECURSIVE Settle(_)
Settle(st) ==
  IF st.res = "grouping" THEN
     IF st.i > Len(st.reg) THEN Settle(GroupingDone(st))
     ELSE IF Len(st.reg[st.i].path) <= 1 THEN Settle([st EXCEPT !.i = @ + 1]) ELSE st
  ELSE IF st.res = "renaming" /\ st.pending = {} THEN RenamingDone(st)
  ELSE st

Init == /\ c \in 1..Len(Obs)
        /\ l = 0
        /\ dst = Settle(DInit(Obs[c].input.runs[1].reg))
        /\ rejected = FALSE

Group == /\ HasEv /\ ~rejected /\ dst.res = "grouping"
         /\ LET e == Evs[l + 1]
                g == GroupStep(dst)
            IN /\ e.ev = "group" /\ ~g.skip
               /\ e.idx = g.idx /\ e.joined = g.joined
               /\ dst' = Settle(g.st)
         /\ l' = l + 1 /\ UNCHANGED <<c, rejected>>

\* one path's block of rename events (paths are renamed in arbitrary order: any pending path may come next)
Rename == /\ HasEv /\ ~rejected /\ dst.res = "renaming"
          /\ LET e == Evs[l + 1] IN
             /\ e.ev = "rename" /\ e.idx >= 0 /\ e.idx < Len(dst.reg)
             /\ LET p == dst.reg[e.idx + 1].path
                    block == RenameEvents(dst, p)
                IN /\ p \in dst.pending
                   /\ l + Len(block) <= Len(Evs)
                   /\ \A k \in DOMAIN block : /\ Evs[l + k].ev = "rename" /\ Evs[l + k].idx = block[k].idx
                                              /\ Evs[l + k].old = block[k].old /\ Evs[l + k].new = block[k].new
                   /\ dst' = Settle(RenamePath(dst, p))
                   /\ l' = l + Len(block)
          /\ UNCHANGED <<c, rejected>>

Reject == /\ HasEv /\ ~rejected /\ ~ENABLED Group /\ ~ENABLED Rename
          /\ rejected' = TRUE /\ UNCHANGED <<c, l, dst>>

Next == Group \/ Rename \/ Reject
Spec == Init /\ [][Next]_vars
Terminal == rejected \/ ~HasEv

R2 == Run.dedup.reg
R3 == Run.dedup2.reg
Root2 == RootOf(Run.gen2.module)

Drift == \/ rejected
         \/ dst.res # Run.dedup.res
         \/ (dst.res = "ok" /\ dst.reg # R2)
         \/ (dst.res = "RegistryTypeIdsInvalid" /\ (dst.given # Run.dedup.given \/ dst.expected # Run.dedup.expected))

DedupOk == Run.dedup.res = "ok"
Gen2Ok == Run.gen2.res = "ok"
Unfaithful2 == IF ~(DedupOk /\ Gen2Ok) THEN {}
               ELSE {id \in Ids(R2) : Run.paths2[id + 1].res = "ok" /\ ~FaithfulTop(R2, S, Root2, id, Run.paths2[id + 1].ty)}
\* two differently shaped types left under one path
Conflated2 == IF ~DedupOk THEN {} ELSE {p \in UserPaths(R2) : \E x, y \in IdsOfPath(R2, p) : ~CoRep(R2, S, x, y)}
\* members of one coincidence-free generic definition (ground truth: the source program) torn apart
IsFamily == \E p \in UserPaths(Reg) : Cardinality(IdsOfPath(Reg, p)) > 1

Failed ==
  (IF IdsConsistent(Reg) /\ ~DedupOk THEN {"C04.Succeeds"} ELSE {})
  \cup (IF DedupOk /\ ~C04_Frame(Reg, R2, S) THEN {"C04.Frame"} ELSE {})
  \cup (IF DedupOk /\ Run.gen2.res = "DuplicateTypePath" THEN {"C04.Sufficient"} ELSE {})
  \cup (IF DedupOk /\ O.input.tog /\ ~C04_Together(Reg, R2) THEN {"C04.Together"} ELSE {})
  \cup (IF DedupOk /\ Run.dedup2.res = "ok" /\ R3 # R2 THEN {"C04.Idempotent"} ELSE {})
  \cup (IF DedupOk /\ Run.dedup2.res # "ok" THEN {"C04.SecondRunSucceeds"} ELSE {})
  \cup (IF DedupOk /\ ~C04_Naming(Reg, R2) THEN {"C04.Naming"} ELSE {})
  \* (wire fidelity is stated for settings with codec attributes on: without them compact fields carry no marker)
  \cup (IF IsFamily /\ S.codec /\ Unfaithful2 # {} THEN {"C03.FaithfulAfterDedup"} ELSE {})
  \cup (IF IsFamily /\ Conflated2 # {} THEN {"C03.DedupLeavesConflation"} ELSE {})
  \cup (IF IsFamily /\ DedupOk /\ Run.gen2.res \notin {"ok", "DuplicateTypePath"} THEN {"C03.OkOrDuplicateAfterDedup"} ELSE {})

(* ---- attribution to known findings: only when the implementation did what the model documents ---- *)
\* families in which the shape comparison separates two types whose candidate items coincide
SplitEqualFamilies == {p \in UserPaths(Reg) : \E x, y \in IdsOfPath(Reg, p) : CoRep(Reg, S, x, y) /\ ~TypesEqual(Reg, x, y) /\ ~TypesEqual(Reg, y, x)}
\* a new name that is already taken by another path of the registry
Collisions == {i \in Changed(Reg, R2) : \E j \in Ids(Reg) : Ty(Reg, j).path # Ty(Reg, i).path /\ Ty(R2, j).path = Ty(R2, i).path}
FrameExplained == \A i \in Changed(Reg, R2) :
                    (\A x, y \in IdsOfPath(Reg, Ty(Reg, i).path) : CoRep(Reg, S, x, y)) => Ty(Reg, i).path \in SplitEqualFamilies
Known ==
  IF Drift \/ ~DedupOk THEN {}
  ELSE (IF Conflated2 # {} THEN {<<"C03.DedupLeavesConflation", "TypesEqual.EqualButItemsDiffer">>} ELSE {})
       \cup (IF Unfaithful2 # {} /\ \A id \in Unfaithful2 : \E g \in Reach(R2, id) : Ty(R2, g).path \in Conflated2
              THEN {<<"C03.FaithfulAfterDedup", "TypesEqual.EqualButItemsDiffer">>} ELSE {})
       \cup (IF SplitEqualFamilies # {} /\ FrameExplained
              THEN {<<"C04.Frame", "TypesEqual.SplitsEqualItems">>, <<"C04.Together", "TypesEqual.SplitsEqualItems">>} ELSE {})
       \cup (IF Collisions # {}
              THEN {<<"C04.Sufficient", "Dedup.SuffixCollision">>, <<"C04.Idempotent", "Dedup.SuffixCollision">>} ELSE {})

Verdict == Terminal =>
  PrintT("V " \o ToJson([case |-> O.case, failed |-> Failed, drift |-> Drift, rejected |-> rejected, at |-> l,
                         dedup |-> Run.dedup.res, gen2 |-> Run.gen2.res, renamed |-> Cardinality(Changed(Reg, IF DedupOk THEN R2 ELSE Reg)),
                         family |-> IsFamily, cf |-> O.input.cf, unfaithful2 |-> Unfaithful2, known |-> Known]))
=================================================================================
