-------------------------------- MODULE TV_T3 --------------------------------
(* Judgement of the compile-and-round-trip tier: the module the real generator emitted was compiled *)
(* by rustc with parity-scale-codec derives; every byte string - a valid encoding of the registry   *)
(* type by the independent decoder of Values.tla - was decoded with the generated type named for     *)
(* that id, must consume all input and re-encode to the same bytes.                                 *)
EXTENDS Values, Json, IOUtils

Obs == ndJsonDeserialize(IOEnv.OBS)
VARIABLE c
Init == c \in 1..Len(Obs)
Next == UNCHANGED c
Spec == Init /\ [][Next]_c
O == Obs[c]
Reg == O.input.reg
Valid(k) == DecodesExactly(Reg, O.checks[k].id, O.checks[k].bytes)
Failed ==
  (IF O.emitted /\ ~O.compiled THEN {"C02.CompilesUnderRustc"} ELSE {})
  \cup (IF O.compiled /\ \E k \in DOMAIN O.checks : Valid(k) /\ ~(O.checks[k].decode /\ O.checks[k].rest = 0 /\ O.checks[k].same) THEN {"C01.DecodesConsumesAllReencodesSame"} ELSE {})
\* bytes produced by scale-encode that the specification's decoder does not accept: a disagreement between the two oracles, not a verdict
OracleDisagreement == {k \in DOMAIN O.checks : ~Valid(k)}
Verdict == PrintT("V " \o ToJson([case |-> O.case, failed |-> Failed, known |-> {}, drift |-> FALSE, disagree |-> Cardinality(OracleDisagreement),
                                  nchecks |-> Len(O.checks), compiled |-> O.compiled, errors |-> O.errors]))
=================================================================================
