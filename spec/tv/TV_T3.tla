-------------------------------- MODULE TV_T3 --------------------------------
(* Judgement of the compile-and-round-trip tier: the module the real generator emitted was compiled *)
(* by rustc with parity-scale-codec derives; every byte string - a valid encoding of the registry   *)
(* type by the independent decoder of Values.tla - was decoded with the generated type named for     *)
(* that id, must consume all input and re-encode to the same bytes.                                 *)
EXTENDS Values, Json, IOUtils

Obs == ndJsonDeserialize(IOEnv.OBS)
VARIABLE c
Init == c \in 1..Len(Obs)
Next == UNCHANGED c
Spec == Init /\ [][Next]_c
O == Obs[c]
Reg == O.input.reg
\* a check with variant >= 0 feeds the payload of that variant (the bytes after the index byte) to the standalone struct built from
\* the variant's field list (C18); the specification's decoder validates the payload against the field list
PayloadFields(k) == LET d == Ty(Reg, O.checks[k].id).def
                        v == CHOOSE x \in DOMAIN d.variants : d.variants[x].index = O.checks[k].variant
                    IN [i \in DOMAIN d.variants[v].fields |-> d.variants[v].fields[i].ty]
Valid(k) == IF O.checks[k].variant = -1 THEN DecodesExactly(Reg, O.checks[k].id, O.checks[k].bytes)
            ELSE DecMany(Reg, PayloadFields(k), O.checks[k].bytes, 1, 4 * Len(Reg) + 8) = Len(O.checks[k].bytes) + 1
\* ordered collections canonicalise (sort, de-duplicate) on decoding: an arbitrary sequence is a valid encoding of the registry's
\* sequence-of-elements shape but re-encodes in canonical order; for them only "decodes and consumes all input" is required
Canonicalises(id) == \E j \in Reach(Reg, id) : HasId(Reg, j) /\ Ty(Reg, j).path \in {<<"BTreeMap">>, <<"BTreeSet">>, <<"BinaryHeap">>}
Failed ==
  (IF O.emitted /\ ~O.compiled THEN {"C02.CompilesUnderRustc"} ELSE {})
  \cup (IF O.compiled /\ \E k \in DOMAIN O.checks : O.checks[k].variant # -1 /\ Valid(k) /\ ~(O.checks[k].decode /\ O.checks[k].rest = 0 /\ (O.checks[k].same \/ Canonicalises(O.checks[k].id)))
        THEN {"C18.PayloadDecodesWithStandaloneStruct"} ELSE {})
  \cup (IF O.compiled /\ \E k \in DOMAIN O.checks : O.checks[k].variant = -1 /\ Valid(k) /\ ~(O.checks[k].decode /\ O.checks[k].rest = 0 /\ (O.checks[k].same \/ Canonicalises(O.checks[k].id))) THEN {"C01.DecodesConsumesAllReencodesSame"} ELSE {})
\* bytes produced by scale-encode that the specification's decoder does not accept: a disagreement between the two oracles, not a verdict
OracleDisagreement == {k \in DOMAIN O.checks : ~Valid(k)}
\* known finding D11: a generic definition that refers to itself is emitted with a root-qualified self-reference, which defeats the
\* codec derive's detection of the self-reference (rustc: E0275 overflow) although the source definition compiles
GenericSelfRecursive == \E id \in Ids(Reg) : IsUserPath(Ty(Reg, id).path) /\ ParamRefs(Ty(Reg, id)) # {} /\ OnCycle(Reg, id)
Known == IF O.emitted /\ ~O.compiled /\ (\E i \in DOMAIN O.errors : O.errors[i] = "E0275") /\ GenericSelfRecursive
         THEN {<<"C02.CompilesUnderRustc", "Typegen.QualifiedSelfReference">>} ELSE {}
Verdict == PrintT("V " \o ToJson([case |-> O.case, failed |-> Failed, known |-> Known, drift |-> FALSE, disagree |-> Cardinality(OracleDisagreement),
                                  nchecks |-> Len(O.checks), compiled |-> O.compiled, errors |-> O.errors]))
=================================================================================
