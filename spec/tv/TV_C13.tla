-------------------------------- MODULE TV_C13 --------------------------------
(* Trace validation of type_description: the enter/short/exit events of Transformer::resolve  *)
(* are stepped through the Transformer protocol (policy: name on recursion for named types,   *)
(* name / cached text on a hit); the text is judged by the abstract acceptor, compared with    *)
(* the concrete model's prediction (drift), and the formatted text must equal the unformatted  *)
(* one up to whitespace.                                                                       *)
EXTENDS Describe, Json, IOUtils

Obs == ndJsonDeserialize(IOEnv.OBS)
VARIABLES c, k, l, t, rejected
vars == <<c, k, l, t, rejected>>

O == Obs[c]
Reg == O.input.reg
X == O.descs[k]
HasEv == l < Len(X.events)

Init == /\ c \in 1..Len(Obs) /\ k \in DOMAIN Obs[c].descs
        /\ l = 0 /\ t = TInit /\ rejected = FALSE

EnterA == /\ HasEv /\ ~rejected
          /\ LET e == X.events[l + 1] IN
             /\ e.ev = "enter" /\ EnterOK(Reg, t, e.id, e.cache, FALSE)
             /\ t' = Enter(Reg, t, e.id, e.cache, "name", "name")
          /\ l' = l + 1 /\ UNCHANGED <<c, k, rejected>>
ShortA == /\ HasEv /\ ~rejected
          /\ LET e == X.events[l + 1] IN
             /\ e.ev = "short" /\ ShortEvOK(t, e.id, e.ok, "name")
             /\ t' = ShortEv(t, e.id, e.ok)
          /\ l' = l + 1 /\ UNCHANGED <<c, k, rejected>>
ExitA == /\ HasEv /\ ~rejected
         /\ LET e == X.events[l + 1] IN
            /\ e.ev = "exit" /\ ExitOK(t, e.id)
            /\ t' = Exit(t, e.id)
         /\ l' = l + 1 /\ UNCHANGED <<c, k, rejected>>
Reject == /\ HasEv /\ ~rejected /\ ~ENABLED EnterA /\ ~ENABLED ShortA /\ ~ENABLED ExitA
          /\ rejected' = TRUE /\ UNCHANGED <<c, k, l, t>>
Next == EnterA \/ ShortA \/ ExitA \/ Reject
Spec == Init /\ [][Next]_vars
Terminal == rejected \/ ~HasEv

\* the protocol invariant: a named id is never twice on the expansion stack (that is what makes descriptions terminate)
StackInv == NoIdTwiceOnStackUnlessUnnamed(Reg, t) /\ StackBounded(Reg, t)

Whitespace == {9, 10, 11, 12, 13, 32}
StripWs(s) == SelectSeq(s, LAMBDA ch : ch \notin Whitespace)
Model == Description(Reg, X.id)
Failed ==
  (IF X.res = "ok" THEN {} ELSE {"C13.TerminatesAndSucceeds"})
  \cup (IF X.res = "ok" /\ ~DescAccepts(Reg, X.id, X.toks) THEN {"C13.FaithfulText"} ELSE {})
  \cup (IF X.res = "ok" /\ (X.fres # "ok" \/ StripWs(X.fcodes) # StripWs(X.codes)) THEN {"C13.FormattedEqualsUnformatted"} ELSE {})
  \cup (IF rejected \/ (X.res = "ok" /\ (Len(t.stack) # 0 \/ t.failed)) THEN {"C13.TraceFollowsProtocol"} ELSE {})
Drift == X.res = "ok" /\ (~Model.ok \/ Model.toks # X.toks)

Verdict == (Terminal => PrintT("V " \o ToJson([case |-> O.case, id |-> X.id, failed |-> Failed, known |-> {}, drift |-> Drift, at |-> l,
                                               nontrivial |-> IsNamedDef(Ty(Reg, X.id).def)])))
           /\ StackInv
=================================================================================
