-------------------------------- MODULE TV_C16 --------------------------------
(* Replay of builder call histories on the real DerivesRegistry / TypeSubstitutes: every logged  *)
(* call is stepped through the same action of SettingsBuilder.tla and the observable state after *)
(* it (result kind, substitutes via iter/contains, default and listed derives, derives and paths  *)
(* generated for the probe registry) is compared with the abstract state; the history-level      *)
(* meaning (unions, last insert wins, rejected calls change nothing) is evaluated at the end.     *)
EXTENDS SettingsBuilder, Json, IOUtils

Obs == ndJsonDeserialize(IOEnv.OBS)
VARIABLES c, l, st, bad
vars == <<c, l, st, bad>>

O == Obs[c]
Calls == O.input.calls
Reg == O.input.reg
BaseS == O.input.settings
HasEv == l < Len(O.steps)

Init == c \in 1..Len(Obs) /\ l = 0 /\ st = BInit /\ bad = {}

ObsRules(x) == {<<x.subs[i].src, x.subs[i].dst>> : i \in DOMAIN x.subs}
ModelRules(s) == {<<s.rules[i].src.segs, s.rules[i].dst>> : i \in DOMAIN s.rules}
ObsListed(x) == {<<x.listed[i].path, RangeOf(x.listed[i].derives), RangeOf(x.listed[i].attrs)>> : i \in DOMAIN x.listed}
ModelListed(S) == {<<PathStr(e[1]), EntryDerives(S, e[1], e[2]), EntryAttrs(S, e[1], e[2])>> : e \in MapEntries(S)}
GenMatches(x, S) ==
  LET g == Generate(Reg, S)
      root == RootOf(x.gen.module)
      its == AllItems(root)
  IN /\ x.gen.res = g.res
     /\ g.res = "ok" => /\ Len(its) = Len(g.items)
                        /\ \A k \in DOMAIN g.items : \E j \in DOMAIN its :
                             /\ its[j].path = <<S.root>> \o g.items[k].path
                             /\ RangeOf(its[j].it.derives) = g.items[k].item.derives /\ RangeOf(its[j].it.attrs) = g.items[k].item.attrs
                             /\ [i \in DOMAIN its[j].it.fields |-> its[j].it.fields[i].ty] = [i \in DOMAIN g.items[k].item.fields |-> g.items[k].item.fields[i].ty]
     /\ \A id \in Ids(Reg) : LET r == ResolveTypePath(Reg, S, id) IN
                             IF r.err = "" THEN x.paths[id + 1].res = "ok" /\ x.paths[id + 1].ty = r.ty ELSE x.paths[id + 1].res = r.err

StateMatches(x, s) ==
  LET S == SettingsOf(BaseS, s) IN
  /\ ObsRules(x) = ModelRules(s)
  /\ \A i \in DOMAIN x.contains : x.contains[i].has = (RuleIdx(s.rules, x.contains[i].path) > 0)
  /\ RangeOf(x.default_derives) = GlobalDerives(S) /\ RangeOf(x.default_attrs) = GlobalAttrs(S)
  /\ ObsListed(x) = ModelListed(S)
  /\ GenMatches(x, S)

Step == /\ HasEv
        /\ LET r == Apply(st, Calls[l + 1])
               o == O.steps[l + 1]
           IN /\ st' = r.st
              /\ bad' = bad \cup (IF o.res = r.res THEN {} ELSE {"C16.ResultKind"})
                            \cup (IF StateMatches(o.state, r.st) THEN {} ELSE {"C16.StateAfterCall"})
        /\ l' = l + 1 /\ UNCHANGED c
Next == Step
Spec == Init /\ [][Next]_vars
Terminal == ~HasEv

\* history-level meaning, evaluated on the last observation only (independent of the step model)
LastObs == O.steps[Len(O.steps)].state
NoExtendH == \A i \in DOMAIN Calls : Calls[i].op # "extend"
HistFailed ==
  IF Len(O.steps) = 0 THEN {} ELSE
  (IF NoExtendH /\ ObsRules(LastObs) # ModelRules([rules |-> RulesOfHistory(Calls, 1, <<>>)]) THEN {"C16.RuleIsLastInsert"} ELSE {})
  \cup (IF \A i \in DOMAIN Calls : Calls[i].op \in {"insert", "insert_if_not_exists"} => O.steps[i].res = PairKind(Calls[i]) THEN {} ELSE {"C16.DocumentedErrorKind"})
  \cup (IF \A i \in DOMAIN Calls : (i > 1 /\ O.steps[i].res # "ok" /\ Calls[i].op # "extend") => O.steps[i].state = O.steps[i - 1].state
        THEN {} ELSE {"C16.RejectedChangesNothing"})
  \cup (IF RangeOf(LastObs.default_derives) = DerivesOfHistory(Calls, "all_d", "", FALSE) /\ RangeOf(LastObs.default_attrs) = DerivesOfHistory(Calls, "all_a", "", FALSE)
        THEN {} ELSE {"C16.GlobalUnion"})

Verdict == Terminal =>
  PrintT("V " \o ToJson([case |-> O.case, failed |-> bad \cup HistFailed \cup (IF l = Len(Calls) THEN {} ELSE {"C16.AllCallsLogged"}), known |-> {}, drift |-> FALSE,
                         nontrivial |-> \E i \in DOMAIN Calls : Calls[i].op \in {"insert", "insert_if_not_exists", "extend"}]))
=================================================================================
