SPECIFICATION Spec
INVARIANTS Verdict
CHECK_DEADLOCK FALSE
