-------------------------------- MODULE TV_C14 --------------------------------
(* Trace validation and judgement of rust_value_from_seed: Transformer protocol (error on recursion, *)
(* recompute on a hit; sequence and array elements are computed directly), the returned tokens parse  *)
(* as an expression and conform - read in lock-step with the registry - to the item the generator     *)
(* emits for the same registry and settings; equal seeds give equal examples; errors, never crashes.  *)
EXTENDS Values, Json, IOUtils

Obs == ndJsonDeserialize(IOEnv.OBS)
VARIABLES c, k, l, t, rejected
vars == <<c, k, l, t, rejected>>
O == Obs[c]
Reg == O.input.reg
S == O.input.settings
X == O.exprs[k]
Root == RootOf(O.gen.module)
HasEv == l < Len(X.events)
Init == c \in 1..Len(Obs) /\ k \in DOMAIN Obs[c].exprs /\ l = 0 /\ t = TInit /\ rejected = FALSE
EnterA == /\ HasEv /\ ~rejected
          /\ LET e == X.events[l + 1] IN e.ev = "enter" /\ EnterOK(Reg, t, e.id, e.cache, TRUE) /\ t' = Enter(Reg, t, e.id, e.cache, "error", "recompute")
          /\ l' = l + 1 /\ UNCHANGED <<c, k, rejected>>
ShortA == /\ HasEv /\ ~rejected
          /\ LET e == X.events[l + 1] IN e.ev = "short" /\ ShortEvOK(t, e.id, e.ok, "error") /\ t' = ShortEv(t, e.id, e.ok)
          /\ l' = l + 1 /\ UNCHANGED <<c, k, rejected>>
ExitA == /\ HasEv /\ ~rejected
         /\ LET e == X.events[l + 1] IN e.ev = "exit" /\ ExitOK(t, e.id) /\ t' = Exit(t, e.id)
         /\ l' = l + 1 /\ UNCHANGED <<c, k, rejected>>
Reject == HasEv /\ ~rejected /\ ~ENABLED EnterA /\ ~ENABLED ShortA /\ ~ENABLED ExitA /\ rejected' = TRUE /\ UNCHANGED <<c, k, l, t>>
Next == EnterA \/ ShortA \/ ExitA \/ Reject
Spec == Init /\ [][Next]_vars
Terminal == rejected \/ ~HasEv

\* domain: no bit sequences and no 256-bit integers among the types reachable from the id; generation of the module succeeded
InDomain == O.gen.res = "ok" /\ \A j \in Reach(Reg, X.id) : HasId(Reg, j) /\ Ty(Reg, j).def.k # "bits" /\ ~(Ty(Reg, j).def.k = "prim" /\ Ty(Reg, j).def.p \in {"u256", "i256"})
IsExpr == X.res = "expr"
Failed ==
  IF ~InDomain THEN {} ELSE
  (IF X.res = "panic" THEN {"C14.ErrorNotCrash"} ELSE {})
  \cup (IF IsExpr /\ ~X.parse_ok THEN {"C14.ParsesAsExpression"} ELSE {})
  \cup (IF IsExpr /\ X.parse_ok /\ ~ExprConforms(Reg, S, Root, O.paths, X.id, X.e) THEN {"C14.ConformsToGeneratedType"} ELSE {})
  \cup (IF X.again = "same" THEN {} ELSE {"C14.SameSeedSameExample"})
  \cup (IF ~IsExpr /\ X.res # "panic" /\ ~CanError(Reg, X.id, TRUE) THEN {"C14.ExampleWheneverPossible"} ELSE {})
  \cup (IF rejected \/ (IsExpr /\ (Len(t.stack) # 0 \/ t.failed)) THEN {"C14.TraceFollowsProtocol"} ELSE {})
Verdict == Terminal => PrintT("V " \o ToJson([case |-> O.case, id |-> X.id, seed |-> X.seed, failed |-> Failed, known |-> {}, drift |-> FALSE, at |-> l,
                                              res |-> X.res, nontrivial |-> InDomain /\ IsExpr /\ IsNamedDef(Ty(Reg, X.id).def)]))
=================================================================================
