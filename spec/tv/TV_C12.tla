-------------------------------- MODULE TV_C12 --------------------------------
(* Trace validation and judgement of scale_value_from_seed: the enter/short/exit events follow the  *)
(* Transformer protocol with the policy (error on recursion, recompute on a hit); a returned value   *)
(* conforms to its type, encodes against the same id, the bytes are a valid encoding by the          *)
(* independent decoder of Values.tla and decode back to an equal value consuming all input; equal    *)
(* seeds give equal values; failure only where CanError allows it.                                  *)
EXTENDS Values, Json, IOUtils

Obs == ndJsonDeserialize(IOEnv.OBS)
VARIABLES c, k, l, t, rejected
vars == <<c, k, l, t, rejected>>
O == Obs[c]
Reg == O.input.reg
X == O.vals[k]
HasEv == l < Len(X.events)
Init == c \in 1..Len(Obs) /\ k \in DOMAIN Obs[c].vals /\ l = 0 /\ t = TInit /\ rejected = FALSE
EnterA == /\ HasEv /\ ~rejected
          /\ LET e == X.events[l + 1] IN e.ev = "enter" /\ EnterOK(Reg, t, e.id, e.cache, FALSE) /\ t' = Enter(Reg, t, e.id, e.cache, "error", "recompute")
          /\ l' = l + 1 /\ UNCHANGED <<c, k, rejected>>
ShortA == /\ HasEv /\ ~rejected
          /\ LET e == X.events[l + 1] IN e.ev = "short" /\ ShortEvOK(t, e.id, e.ok, "error") /\ t' = ShortEv(t, e.id, e.ok)
          /\ l' = l + 1 /\ UNCHANGED <<c, k, rejected>>
ExitA == /\ HasEv /\ ~rejected
         /\ LET e == X.events[l + 1] IN e.ev = "exit" /\ ExitOK(t, e.id) /\ t' = Exit(t, e.id)
         /\ l' = l + 1 /\ UNCHANGED <<c, k, rejected>>
Reject == HasEv /\ ~rejected /\ ~ENABLED EnterA /\ ~ENABLED ShortA /\ ~ENABLED ExitA /\ rejected' = TRUE /\ UNCHANGED <<c, k, l, t>>
Next == EnterA \/ ShortA \/ ExitA \/ Reject
Spec == Init /\ [][Next]_vars
Terminal == rejected \/ ~HasEv

RECURSIVE HasPrim(_, _)
HasPrim(v, ps) == CASE v.k = "prim" -> v.p \in ps
                    [] v.k = "named" -> \E i \in DOMAIN v.fields : HasPrim(v.fields[i].v, ps)
                    [] v.k = "unnamed" -> \E i \in DOMAIN v.vals : HasPrim(v.vals[i], ps)
                    [] v.k = "variant" -> HasPrim(v.vals, ps)
                    [] OTHER -> FALSE
\* the property's domain: compact wraps unsigned integers or single-field wrappers of them (real chain metadata also has Compact<()>)
RECURSIVE CompactInnerOK(_, _)
CompactInnerOK(id, fuel) ==
  IF fuel = 0 \/ ~HasId(Reg, id) THEN FALSE
  ELSE LET d == Ty(Reg, id).def IN
       CASE d.k = "prim" -> d.p \in UnsignedPrims
         [] d.k = "comp" -> Len(d.fields) = 1 /\ CompactInnerOK(d.fields[1].ty, fuel - 1)
         [] OTHER -> FALSE
InDomain == \A j \in Reach(Reg, X.id) \cup {X.id} : Ty(Reg, j).def.k = "compact" => CompactInnerOK(Ty(Reg, j).def.of, 4)
IsValue == X.res = "value" /\ InDomain
Failed ==
  (IF X.res = "panic" /\ InDomain THEN {"C12.NoPanic"} ELSE {})
  \cup (IF IsValue /\ ~ValueConforms(Reg, X.id, X.v) THEN {"C12.ValueConformsToType"} ELSE {})
  \cup (IF IsValue /\ X.enc # "ok" THEN {"C12.Encodes"} ELSE {})
  \cup (IF IsValue /\ X.enc = "ok" /\ ~DecodesExactly(Reg, X.id, X.bytes) THEN {"C12.BytesAreAnEncodingOfTheType"} ELSE {})
  \cup (IF IsValue /\ X.enc = "ok" /\ ~(X.dec = "ok" /\ X.rest = 0 /\ X.eq) THEN {"C12.DecodesBackEqual"} ELSE {})
  \cup (IF X.again = "same" THEN {} ELSE {"C12.SameSeedSameValue"})
  \cup (IF X.res # "value" /\ InDomain /\ ~CanError(Reg, X.id, FALSE) THEN {"C12.ValueWheneverPossible"} ELSE {})
  \cup (IF rejected \/ (IsValue /\ (Len(t.stack) # 0 \/ t.failed))
        THEN {"C12.TraceFollowsProtocol"} ELSE {})
\* known finding: char values cannot be encoded by scale-value (cause outside the repository)
\* and 256-bit integers (scale-encode has no target for them); attributed only when the value itself is a correct instance of the type
Known == IF IsValue /\ X.enc = "err" /\ ValueConforms(Reg, X.id, X.v)
         THEN (IF HasPrim(X.v, {"char"}) THEN {<<"C12.Encodes", "ScaleValue.CharArm">>} ELSE {})
              \cup (IF HasPrim(X.v, {"u256", "i256"}) THEN {<<"C12.Encodes", "ScaleValue.U256Arm">>} ELSE {})
         ELSE {}
Verdict == Terminal => PrintT("V " \o ToJson([case |-> O.case, id |-> X.id, seed |-> X.seed, failed |-> Failed, known |-> Known, drift |-> FALSE, at |-> l,
                                              res |-> X.res, nontrivial |-> IsValue /\ Ty(Reg, X.id).def.k # "prim"]))
=================================================================================
