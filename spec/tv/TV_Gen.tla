-------------------------------- MODULE TV_Gen --------------------------------
(* Judgement of recorded generator runs (mode `gen` of the harness) by the abstract      *)
(* predicates: each observation carries its input (registry, settings) and what the real  *)
(* crate produced (result kinds, projected module, projected paths, hook events).         *)
EXTENDS RustSem, Json, IOUtils

Obs == ndJsonDeserialize(IOEnv.OBS)

VARIABLE c
Init == c \in 1..Len(Obs)
Next == UNCHANGED c
Spec == Init /\ [][Next]_c

O == Obs[c]
Run == O.runs[1]
In == O.input.runs[1]
Reg == In.reg
S == In.settings
Root == RootOf(Run.gen.module)

\* C01: every id's named type is wire-faithful
UnfaithfulIds == IF Run.gen.res # "ok" THEN {}
                 ELSE {id \in Ids(Reg) : Run.paths[id + 1].res = "ok" /\ ~FaithfulTop(Reg, S, Root, id, Run.paths[id + 1].ty)}
PathFailures == IF Run.gen.res # "ok" THEN {} ELSE {id \in Ids(Reg) : Run.paths[id + 1].res # "ok"}

C02_Failed == IF Run.gen.res # "ok" THEN {}
              ELSE (IF Run.gen.parse_ok THEN {} ELSE {"Parses"}) \cup RustWfFailed(S, Run.gen.module)

Failed == (IF UnfaithfulIds = {} THEN {} ELSE {"C01.Faithful"})
          \cup (IF PathFailures = {} THEN {} ELSE {"C01.PathResolves"})
          \cup {"C02." \o x : x \in C02_Failed}

Verdict == PrintT("V " \o ToJson([case |-> O.case, ok |-> Failed = {}, failed |-> Failed,
                                  gen |-> Run.gen.res, unfaithful |-> UnfaithfulIds, pathfail |-> PathFailures]))
=================================================================================
