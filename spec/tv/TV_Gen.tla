-------------------------------- MODULE TV_Gen --------------------------------
(* Trace validation and judgement of recorded generator runs (harness mode `gen`).  Each   *)
(* observation carries its input (registry, settings, coincidence-freedom as evaluated on  *)
(* the source program by MC_Gen) and what the real crate did: the hook events of the       *)
(* generation loop, result kinds, the projected module and the projected path of every id. *)
(* The visit events are stepped through the Visit action of Typegen.tla; at the end the    *)
(* abstract predicates are evaluated on the implementation's output, and the output is     *)
(* compared with the model's prediction (drift).                                           *)
EXTENDS Typegen, Json, IOUtils

Obs == ndJsonDeserialize(IOEnv.OBS)

VARIABLES c, l, gst, rejected
vars == <<c, l, gst, rejected>>

O == Obs[c]
Run == O.runs[1]
In == O.input.runs[1]
Reg == In.reg
S == In.settings
Evs == Run.gen.events
HasEv == l < Len(Evs)

Init == /\ c \in 1..Len(Obs)
        /\ l = 0
        /\ gst = GenStart(Obs[c].input.runs[1].reg, GenInit)
        /\ rejected = FALSE

Begin == /\ HasEv /\ ~rejected /\ l = 0
         /\ Evs[1].ev = "gen_begin"
         /\ l' = 1 /\ UNCHANGED <<c, gst, rejected>>

Visit == /\ HasEv /\ ~rejected /\ l > 0
         /\ gst.res = "running" /\ gst.i <= Len(Reg)
         /\ LET e == Evs[l + 1]
                vo == VisitOutcome(Reg, S, gst)
            IN /\ e.ev = "visit"
               /\ e.id = Reg[gst.i].id
               /\ e.out = vo.out
               /\ e.other = vo.other
               /\ gst' = VisitApply(Reg, gst, vo)
         /\ l' = l + 1 /\ UNCHANGED <<c, rejected>>

Reject == /\ HasEv /\ ~rejected /\ ~ENABLED Begin /\ ~ENABLED Visit
          /\ rejected' = TRUE /\ UNCHANGED <<c, l, gst>>

Next == Begin \/ Visit \/ Reject
Spec == Init /\ [][Next]_vars

Terminal == rejected \/ ~HasEv

\* after the last event: an entry whose IR construction fails returns without an event
ModelFinal ==
  IF gst.res = "running" /\ gst.i <= Len(Reg)
  THEN LET vo == VisitOutcome(Reg, S, gst) IN
       IF vo.out = "error" THEN VisitApply(Reg, gst, vo) ELSE [gst EXCEPT !.res = "trace-truncated"]
  ELSE GenFinish(Reg, gst)

Root == RootOf(Run.gen.module)

(* ---- drift: implementation output vs model prediction ---- *)
FieldMatches(m, o) == m.name = o.name /\ m.vis = o.vis /\ m.ty = o.ty /\ m.compact = o.compact /\ m.skip = o.skip /\ Len(o.attrs) = 0
FieldsMatch(ms, os) == Len(ms) = Len(os) /\ \A i \in DOMAIN ms : FieldMatches(ms[i], os[i])
ItemMatches(m, o) ==
  /\ m.kind = o.kind /\ m.name = o.name /\ m.generics = o.generics
  /\ m.derives = RangeOf(o.derives) /\ m.attrs = RangeOf(o.attrs)
  /\ m.docs = o.docs /\ m.style = o.style /\ m.semi = o.semi
  /\ FieldsMatch(m.fields, o.fields)
  /\ Len(m.variants) = Len(o.variants)
  /\ \A i \in DOMAIN m.variants :
       LET mv == m.variants[i]  ov == o.variants[i] IN
       mv.name = ov.name /\ mv.index = ov.index /\ mv.docs = ov.docs /\ mv.style = ov.style
       /\ FieldsMatch(mv.fields, ov.fields) /\ Len(ov.attrs) = 0 /\ ~ov.disc
ModuleDrift(mf) ==
  LET obsItems == AllItems(Root) IN
  \/ Len(obsItems) # Len(mf.items)
  \/ \E k \in DOMAIN mf.items :
       LET p == <<S.root>> \o mf.items[k].path
           hits == {j \in DOMAIN obsItems : obsItems[j].path = p}
       IN hits = {} \/ \E j \in hits : ~ItemMatches(mf.items[k].item, obsItems[j].it)
PathDrift == \E id \in Ids(Reg) :
               LET r == ResolveTypePath(Reg, S, id)  o == Run.paths[id + 1] IN
               IF r.err = "" THEN o.res # "ok" \/ o.ty # r.ty
               ELSE o.res # r.err \/ (r.err = "TypeNotFound" /\ o.id # r.errid)
Drift == LET mf == ModelFinal IN
         \/ rejected
         \/ mf.res # Run.gen.res
         \/ (mf.res = "ok" /\ Run.gen.parse_ok /\ ModuleDrift(mf))
         \/ (IdsConsistent(Reg) /\ PathDrift)

(* ---- abstract predicates on the implementation's output ---- *)
GenOk == Run.gen.res = "ok"
UnfaithfulIds == IF ~GenOk THEN {}
                 ELSE {id \in Ids(Reg) : Run.paths[id + 1].res = "ok" /\ ~FaithfulTop(Reg, S, Root, id, Run.paths[id + 1].ty)}
PathFailures == IF ~GenOk THEN {} ELSE {id \in Ids(Reg) : Run.paths[id + 1].res # "ok"}
C02_Failed == IF ~GenOk THEN {} ELSE (IF Run.gen.parse_ok THEN {} ELSE {"Parses"}) \cup RustWfFailed(S, Run.gen.module)
HasFamily == \E p \in UserPaths(Reg) : Cardinality(IdsOfPath(Reg, p)) > 1

Failed ==
  \* C01: well-formed, coincidence-free registries (cf is evaluated on the source program by the case generator)
  (IF O.input.cf /\ UnfaithfulIds # {} THEN {"C01.Faithful"} ELSE {})
  \cup (IF O.input.cf /\ PathFailures # {} THEN {"C01.PathResolves"} ELSE {})
  \cup (IF O.input.cf /\ GenOk /\ ~Run.gen.parse_ok THEN {"C01.Parses"} ELSE {})
  \* C02: every well-formed registry
  \cup {"C02." \o x : x \in C02_Failed}
  \* C03: same-path families, not restricted to coincidence-free ones
  \cup (IF HasFamily /\ UnfaithfulIds # {} THEN {"C03.Faithful"} ELSE {})
  \cup (IF HasFamily /\ Run.gen.res \notin {"ok", "DuplicateTypePath"} THEN {"C03.OkOrDuplicate"} ELSE {})
  \* C10: fault-free well-formed input never fails except with the duplicate-path error, never panics
  \cup (IF Run.gen.res \notin {"ok", "DuplicateTypePath"} THEN {"C10.OnlyDuplicatePath"} ELSE {})
  \cup (IF \E id \in Ids(Reg) : Run.paths[id + 1].res = "panic" THEN {"C10.ResolveNoPanic"} ELSE {})

(* ---- attribution to known findings (DESIGN.md 2.8): a failed predicate is explained by a ----
   ---- site only if the implementation did exactly what the concrete model documents      ---- *)
\* ids the model keeps on an occupied path although their own candidate item differs from the kept one
BadlyKept == LET mf == ModelFinal IN
             {g \in Ids(Reg) : IsUserPath(Ty(Reg, g).path) /\ IsNamedDef(Ty(Reg, g).def)
                               /\ \E k \in DOMAIN mf.items : /\ mf.items[k].path = Ty(Reg, g).path /\ mf.items[k].id # g
                                                              /\ ~CoRepItems(Reg, S, g, mf.items[k].id)}
Known ==
  IF Drift THEN {}
  ELSE (IF UnfaithfulIds # {} /\ \A id \in UnfaithfulIds : Reach(Reg, id) \cap BadlyKept # {}
        THEN {<<"C03.Faithful", "KeepFirst.CandidateItemsDiffer">>} ELSE {})

Verdict == Terminal =>
  PrintT("V " \o ToJson([case |-> O.case, failed |-> Failed, drift |-> Drift, rejected |-> rejected, at |-> l,
                         gen |-> Run.gen.res, model |-> ModelFinal.res, unfaithful |-> UnfaithfulIds,
                         family |-> HasFamily, cf |-> O.input.cf, known |-> Known,
                         outs |-> {Evs[i].out : i \in {j \in DOMAIN Evs : Evs[j].ev = "visit"}}]))
=================================================================================
