-------------------------------- MODULE TV_Gen --------------------------------
(* Trace validation and judgement of recorded generator runs (harness mode `gen`).  Each   *)
(* observation carries its input (registry, settings, coincidence-freedom as evaluated on  *)
(* the source program by MC_Gen) and what the real crate did: the hook events of the       *)
(* generation loop, result kinds, the projected module and the projected path of every id. *)
(* The visit events are stepped through the Visit action of Typegen.tla; at the end the    *)
(* abstract predicates are evaluated on the implementation's output, and the output is     *)
(* compared with the model's prediction (drift).                                           *)
EXTENDS Source, Json, IOUtils

Obs == ndJsonDeserialize(IOEnv.OBS)

VARIABLES c, l, gst, rejected
vars == <<c, l, gst, rejected>>

O == Obs[c]
Run == O.runs[1]
In == O.input.runs[1]
Reg == In.reg
S == In.settings
Evs == Run.gen.events
HasEv == l < Len(Evs)

Init == /\ c \in 1..Len(Obs)
        /\ l = 0
        /\ gst = GenStart(Obs[c].input.runs[1].reg, GenInit)
        /\ rejected = FALSE

Begin == /\ HasEv /\ ~rejected /\ l = 0
         /\ Evs[1].ev = "gen_begin"
         /\ l' = 1 /\ UNCHANGED <<c, gst, rejected>>

Visit == /\ HasEv /\ ~rejected /\ l > 0
         /\ gst.res = "running" /\ gst.i <= Len(Reg)
         /\ LET e == Evs[l + 1]
                vo == VisitOutcome(Reg, S, gst)
            IN /\ e.ev = "visit"
               /\ e.id = Reg[gst.i].id
               /\ e.out = vo.out
               /\ e.other = vo.other
               /\ gst' = VisitApply(Reg, gst, vo)
         /\ l' = l + 1 /\ UNCHANGED <<c, rejected>>

Reject == /\ HasEv /\ ~rejected /\ ~ENABLED Begin /\ ~ENABLED Visit
          /\ rejected' = TRUE /\ UNCHANGED <<c, l, gst>>

Next == Begin \/ Visit \/ Reject
Spec == Init /\ [][Next]_vars

Terminal == rejected \/ ~HasEv

\* after the last event: an entry whose IR construction fails returns without an event
ModelFinal ==
  IF gst.res = "running" /\ gst.i <= Len(Reg)
  THEN LET vo == VisitOutcome(Reg, S, gst) IN
       IF vo.out = "error" THEN VisitApply(Reg, gst, vo) ELSE [gst EXCEPT !.res = "trace-truncated"]
  ELSE GenFinish(Reg, gst)

Root == RootOf(Run.gen.module)

(* ---- drift: implementation output vs model prediction ---- *)
FieldMatches(m, o) == m.name = o.name /\ m.vis = o.vis /\ m.ty = o.ty /\ m.compact = o.compact /\ m.skip = o.skip /\ Len(o.attrs) = 0
FieldsMatch(ms, os) == Len(ms) = Len(os) /\ \A i \in DOMAIN ms : FieldMatches(ms[i], os[i])
ItemMatches(m, o) ==
  /\ m.kind = o.kind /\ m.name = o.name /\ m.generics = o.generics
  /\ m.derives = RangeOf(o.derives) /\ m.attrs = RangeOf(o.attrs)
  /\ m.docs = o.docs /\ m.style = o.style /\ m.semi = o.semi
  /\ FieldsMatch(m.fields, o.fields)
  /\ Len(m.variants) = Len(o.variants)
  /\ \A i \in DOMAIN m.variants :
       LET mv == m.variants[i]  ov == o.variants[i] IN
       mv.name = ov.name /\ mv.index = ov.index /\ mv.docs = ov.docs /\ mv.style = ov.style
       /\ FieldsMatch(mv.fields, ov.fields) /\ Len(ov.attrs) = 0 /\ ~ov.disc
ModuleDrift(mf) ==
  LET obsItems == AllItems(Root) IN
  \/ Len(obsItems) # Len(mf.items)
  \/ \E k \in DOMAIN mf.items :
       LET p == <<S.root>> \o mf.items[k].path
           hits == {j \in DOMAIN obsItems : obsItems[j].path = p}
       IN hits = {} \/ \E j \in hits : ~ItemMatches(mf.items[k].item, obsItems[j].it)
PathDrift == \E id \in Ids(Reg) :
               LET r == ResolveTypePath(Reg, S, id)  o == Run.paths[id + 1] IN
               IF r.err = "" THEN \/ o.res # "ok" \/ o.ty # r.ty
                                  \* the accessors of TypePath (is_compact, is_string, is_uint_up_to_u128, vec_type_param) follow the resolved kind
                                  \/ o.is_compact # (r.kind = "compact") \/ o.is_string # (r.kind = "prim:str")
                                  \/ o.is_uint # (r.kind \in {"prim:" \o p : p \in UnsignedPrims})
                                  \/ o.vec_of # (IF r.kind = "vec" THEN r.ty.args[1] ELSE [k |-> "none"])
               ELSE o.res # r.err \/ (r.err = "TypeNotFound" /\ o.id # r.errid)
Drift == LET mf == ModelFinal IN
         \/ rejected
         \/ mf.res # Run.gen.res
         \/ (mf.res = "ok" /\ Run.gen.parse_ok /\ ModuleDrift(mf))
         \/ (IdsConsistent(Reg) /\ PathDrift)

(* ---- abstract predicates on the implementation's output ---- *)
GenOk == Run.gen.res = "ok"
UnfaithfulIds == IF ~GenOk THEN {}
                 ELSE {id \in Ids(Reg) : Run.paths[id + 1].res = "ok" /\ ~FaithfulTop(Reg, S, Root, id, Run.paths[id + 1].ty)}
PathFailures == IF ~GenOk THEN {} ELSE {id \in Ids(Reg) : Run.paths[id + 1].res # "ok"}
C02_Failed == IF ~GenOk THEN {} ELSE (IF Run.gen.parse_ok THEN {} ELSE {"Parses"}) \cup RustWfFailed(S, Run.gen.module)
                                       \cup (IF CompactAsOKSeq(S, RootOf(Run.gen.module)) THEN {} ELSE {"CompactAsSingleField"})
HasFamily == \E p \in UserPaths(Reg) : Cardinality(IdsOfPath(Reg, p)) > 1
\* coincidence-freedom: evaluated on the source program by the case generator; a registry without source program (real chain
\* metadata, family G6) is certified only if every user path has exactly one id (DESIGN.md 3.4)
CFdom == O.input.cf \/ (O.input.fam = "G6" /\ ~HasFamily)
\* wire fidelity is stated for settings with codec attributes on (without them compact fields carry no marker)
FidelityDomain == S.codec

\* ids the model keeps on an occupied path although their own candidate item differs from the kept one
BadlyKept == LET mf == ModelFinal IN
             {g \in Ids(Reg) : IsUserPath(Ty(Reg, g).path) /\ IsNamedDef(Ty(Reg, g).def)
                               /\ \E k \in DOMAIN mf.items : /\ mf.items[k].path = Ty(Reg, g).path /\ mf.items[k].id # g
                                                              /\ ~CoRepItems(Reg, S, g, mf.items[k].id)}

(* ---- C05: the item of every definition is the expected item derived from the source program ---- *)
Prog == O.input.prog
HasProg == Len(Prog.defs) > 0
C05_Domain == HasProg /\ O.input.tog /\ GenOk
C05_BadDefs == IF ~C05_Domain THEN {}
               ELSE {d.name : d \in {x \in C05Defs(Prog, O.input.sroots) : SubFor(S, x.mod \o <<x.ident>>) = 0 /\
                        LET it == FindItem(Root, <<S.root>> \o x.mod \o <<x.ident>>) IN
                        it.kind = "none" \/ ~ItemAgrees(ExpectedItem(Prog, S, x), it)}}
\* all instantiations yield one and the same item: every id of the definition's path is named by that path with one argument per live parameter
C05_BadIds == IF ~C05_Domain THEN {}
              ELSE {id \in Ids(Reg) : \E d \in C05Defs(Prog, O.input.sroots) :
                      /\ Ty(Reg, id).path = d.mod \o <<d.ident>> /\ SubFor(S, Ty(Reg, id).path) = 0
                      /\ LET t == Run.paths[id + 1].ty IN
                         ~(Run.paths[id + 1].res = "ok" /\ t.k = "path" /\ ~t.lead /\ t.segs = <<S.root>> \o Ty(Reg, id).path
                           /\ Len(t.args) = Len(LiveGenerics(d)))}

(* ---- C17: renumbering / order (runs 2.. = permuted registries), restriction (retain) ---- *)
PermRuns == {k \in DOMAIN O.runs : k > 1}
SamePartition(Ra, Rb, pi) ==   \* Ra, Rb de-duplicated registries of the original and of the permuted registry
  \* within every same-path family of the original registry (a new name that collides with another family's path is C04's business)
  Len(Ra) = Len(Rb) /\ \A i, j \in Ids(Ra) : Reg[i + 1].path = Reg[j + 1].path =>
                                               ((Ra[i + 1].path = Ra[j + 1].path) <=> (Rb[pi[i + 1] + 1].path = Rb[pi[j + 1] + 1].path))
C17_Failed ==
  IF ~(CFdom /\ IdsConsistent(Reg)) THEN {}
  ELSE (IF \A k \in PermRuns : O.runs[k].gen.res = Run.gen.res /\ O.runs[k].gen.fp = Run.gen.fp THEN {} ELSE {"TokensInvariantUnderRenumbering"})
       \cup (IF \A k \in PermRuns : (Run.dedup.res = "ok" /\ O.runs[k].dedup.res = "ok") =>
                   SamePartition(Run.dedup.reg, O.runs[k].dedup.reg, O.input.perms[k - 1]) THEN {} ELSE {"RenamePartitionInvariant"})
       \cup (IF ~GenOk \/ Run.retain.res # "ok" \/ Run.retain.gen.res # "ok" THEN (IF GenOk /\ (Run.retain.res # "ok" \/ Run.retain.gen.res # "ok") THEN {"RestrictionGenerates"} ELSE {})
             \* a recursive derive whose root lies outside the retained closure cannot reach the retained types any more (C08 forbids it):
             \* the same-item clause is judged when every recursive root of the registry is retained
             ELSE IF \E r \in RecRoots(S) : IdsOfPathStr(Reg, r) # {} /\ IdsOfPathStr(Run.retain.reg, r) = {} THEN {}
             ELSE LET R2 == RootOf(Run.retain.gen.module)
                      its2 == AllItems(R2)
                      its1 == AllItems(Root)
                  IN IF \A a \in DOMAIN its2 : \E b \in DOMAIN its1 : its1[b].path = its2[a].path /\ its1[b].it = its2[a].it
                     THEN {} ELSE {"RestrictionSameItems"})

(* ---- C18: standalone structs built from a field list through the public API ---- *)
\* registry field list of composite record k
CompFields(k) == LET e == Ty(Reg, k.id) IN IF k.variant = -1 THEN e.def.fields ELSE e.def.variants[k.variant + 1].fields
CompName(k) == LET e == Ty(Reg, k.id) IN IF k.variant = -1 THEN Ident(e.path) ELSE e.def.variants[k.variant + 1].name
OwnItem(k) == FindItem(Root, <<S.root>> \o Ty(Reg, k.id).path)
\* the enum's / struct's own field list in the generated module
\* (the item found at the path may belong to another, differently shaped type of the same path: guard every index)
VariantThere(k) == k.variant = -1 \/ (OwnItem(k).kind = "enum" /\ k.variant + 1 <= Len(OwnItem(k).variants))
OwnFields(k) == LET it == OwnItem(k) IN IF ~VariantThere(k) THEN <<>> ELSE IF k.variant = -1 THEN RealFields(it.fields) ELSE RealFields(it.variants[k.variant + 1].fields)
\* Cow is transparent: a Cow of an unsigned integer is an unsigned integer on the wire and in the generated type
SingleUnsigned(fields) == Len(fields) = 1 /\ HasId(Reg, UnCow(Reg, fields[1].ty)) /\ Ty(Reg, UnCow(Reg, fields[1].ty)).def.k = "prim"
                          /\ Ty(Reg, UnCow(Reg, fields[1].ty)).def.p \in UnsignedPrims
C18_Check(k, withFaithful) ==
  /\ k.res = "ok" /\ k.parse_ok /\ VariantThere(k)
  /\ k.item.kind = "struct" /\ k.item.name = CompName(k) /\ Len(k.item.generics) = 0
  /\ Len(k.item.fields) = Len(OwnFields(k))
  /\ \A j \in DOMAIN k.item.fields :
       LET a == k.item.fields[j]  b == OwnFields(k)[j]  f == CompFields(k)[j] IN
       /\ a.name = b.name /\ a.compact = b.compact /\ ~a.skip /\ a.vis
       /\ Unbox(S, a.ty) = Unbox(S, b.ty)                    \* refers to the same generated items as the type's own item
       \* the Box marker of this very field list (a compact position is never boxed)
       /\ IsBox(S, a.ty) <=> (Contains(f.tn, "Box<") /\ ~(HasId(Reg, UnCow(Reg, f.ty)) /\ Ty(Reg, UnCow(Reg, f.ty)).def.k = "compact"))
  /\ (withFaithful => FieldsFaithful(Reg, S, Root, CompFields(k), k.item.fields, <<>>, <<>>))
  /\ RangeOf(k.item.derives) = GlobalDerives(S) \cup (IF S.has_compact_as /\ SingleUnsigned(CompFields(k)) THEN {CompactAsStr(S)} ELSE {})
  /\ RangeOf(k.item.attrs) = GlobalAttrs(S)
  /\ k.item.docs = DocsOf(S, IF k.variant = -1 THEN Ty(Reg, k.id).docs ELSE Ty(Reg, k.id).def.variants[k.variant + 1].docs)
C18_Domain == IF ~GenOk THEN {}
              ELSE {i \in DOMAIN Run.composites : LET own == OwnItem(Run.composites[i]) IN own.kind # "none" /\ Len(own.generics) = 0}
C18_Bad == {i \in C18_Domain : ~C18_Check(Run.composites[i], FidelityDomain)}
\* bad only because a field type is one of the conflated types of a known C03 finding
C18_BadOnlyByConflation == {i \in C18_Bad : \/ Run.composites[i].id \in BadlyKept     \* its own path's item belongs to another type
                                             \/ /\ C18_Check(Run.composites[i], FALSE)
                                                /\ \E f \in RangeOf(CompFields(Run.composites[i])) : Reach(Reg, f.ty) \cap BadlyKept # {}}

(* ---- C07: substituted paths are neither defined nor referenced; occurrences are parameter-correct ---- *)
AllTys == FlattenSeq([k \in DOMAIN AllItems(Root) |-> ItemFieldTys(AllItems(Root)[k].it)])
C07_Failed ==
  IF Len(S.subs) = 0 THEN {}
  \* valid rules over struct/enum paths never make generation or path resolution fail
  ELSE IF Run.gen.res \notin {"ok", "DuplicateTypePath"} \/ \E id \in Ids(Reg) : Run.paths[id + 1].res = "panic" THEN {"GeneratesWithRules"}
  ELSE IF ~GenOk THEN {}
  ELSE (IF \A r \in DOMAIN S.subs : FindItem(Root, <<S.root>> \o S.subs[r].src.segs).kind = "none" THEN {} ELSE {"NoItem"})
       \cup (IF \A r \in DOMAIN S.subs : /\ \A i \in DOMAIN AllTys : ~RefersTo(AllTys[i], <<S.root>> \o S.subs[r].src.segs)
                                          /\ \A id \in Ids(Reg) : Run.paths[id + 1].res = "ok" => ~RefersTo(Run.paths[id + 1].ty, <<S.root>> \o S.subs[r].src.segs)
             THEN {} ELSE {"NoReference"})
       \cup (IF O.input.cf /\ FidelityDomain /\ UnfaithfulIds # {} THEN {"ParameterCorrect"} ELSE {})

(* ---- C08: every emitted item carries exactly the right derives and attributes (must/may) ---- *)
C08_BadItems == IF ~GenOk THEN {}
                ELSE {k \in DOMAIN AllItems(Root) :
                        LET x == AllItems(Root)[k] IN
                        ~C08_ItemOK(Reg, S, Root, Tail(x.path), RangeOf(x.it.derives), RangeOf(x.it.attrs), x.it)}

Failed ==
  \* C01: well-formed, coincidence-free registries (cf is evaluated on the source program by the case generator)
  (IF CFdom /\ FidelityDomain /\ UnfaithfulIds # {} THEN {"C01.Faithful"} ELSE {})
  \cup (IF CFdom /\ PathFailures # {} THEN {"C01.PathResolves"} ELSE {})
  \cup (IF CFdom /\ GenOk /\ ~Run.gen.parse_ok THEN {"C01.Parses"} ELSE {})
  \* C02: every well-formed registry
  \cup {"C02." \o x : x \in C02_Failed}
  \* C03: same-path families, not restricted to coincidence-free ones
  \cup (IF HasFamily /\ FidelityDomain /\ UnfaithfulIds # {} THEN {"C03.Faithful"} ELSE {})
  \cup (IF HasFamily /\ Run.gen.res \notin {"ok", "DuplicateTypePath"} THEN {"C03.OkOrDuplicate"} ELSE {})
  \cup {"C07." \o x : x \in C07_Failed}
  \cup (IF C08_BadItems # {} THEN {"C08.DerivesAndAttributes"} ELSE {})
  \cup (IF C05_BadDefs # {} THEN {"C05.ItemIsSourceDefinition"} ELSE {})
  \cup (IF C05_BadIds # {} THEN {"C05.OneItemForAllInstantiations"} ELSE {})
  \cup {"C17." \o x : x \in C17_Failed}
  \cup (IF C18_Bad # {} THEN {"C18.StandaloneStruct"} ELSE {})
  \* C10: fault-free well-formed input never fails except with the duplicate-path error, never panics
  \cup (IF Run.gen.res \notin {"ok", "DuplicateTypePath"} THEN {"C10.OnlyDuplicatePath"} ELSE {})
  \cup (IF \E id \in Ids(Reg) : Run.paths[id + 1].res = "panic" THEN {"C10.ResolveNoPanic"} ELSE {})

(* ---- attribution to known findings (DESIGN.md 2.8): a failed predicate is explained by a ----
   ---- site only if the implementation did exactly what the concrete model documents      ---- *)
\* does the model, in the given or in one of the permuted orders, equate two same-path types whose candidate items differ?
BadlyKeptAnyOrder == \E p \in UserPaths(Reg) : \E x, y \in IdsOfPath(Reg, p) : x # y /\ TypesEqual(Reg, x, y) /\ ~CoRepItems(Reg, S, x, y)
\* for token identity (C17) a difference in a field-level Box counts as well: `Foo{a: u8}` / `Foo{a: Box<u8>}` are one registry shape,
\* types_equal equates them, and the item of whichever comes first is kept
KeptItemDependsOnOrder == \E p \in UserPaths(Reg) : \E x, y \in IdsOfPath(Reg, p) :
                             x # y /\ TypesEqual(Reg, x, y) /\ CandidateItem(Reg, S, x) # CandidateItem(Reg, S, y)
Known ==
  IF Drift THEN {}
  ELSE (IF UnfaithfulIds # {} /\ \A id \in UnfaithfulIds : Reach(Reg, id) \cap BadlyKept # {}
        THEN {<<"C03.Faithful", "KeepFirst.CandidateItemsDiffer">>} ELSE {})
       \cup (IF C18_Bad # {} /\ C18_Bad = C18_BadOnlyByConflation THEN {<<"C18.StandaloneStruct", "KeepFirst.CandidateItemsDiffer">>} ELSE {})
       \* order dependence that stems from a known conflation: the model keeps an id on an occupied path although its candidate item differs
       \cup (IF BadlyKeptAnyOrder \/ KeptItemDependsOnOrder THEN {<<"C17.TokensInvariantUnderRenumbering", "KeepFirst.CandidateItemsDiffer">>, <<"C17.RenamePartitionInvariant", "KeepFirst.CandidateItemsDiffer">>,
                                          <<"C17.RestrictionSameItems", "KeepFirst.CandidateItemsDiffer">>, <<"C17.RestrictionGenerates", "KeepFirst.CandidateItemsDiffer">>} ELSE {})

Verdict == Terminal =>
  PrintT("V " \o ToJson([case |-> O.case, failed |-> Failed, drift |-> Drift, rejected |-> rejected, at |-> l,
                         gen |-> Run.gen.res, model |-> ModelFinal.res, unfaithful |-> UnfaithfulIds,
                         family |-> HasFamily, cf |-> CFdom, known |-> Known, c05 |-> C05_Domain, ncomp |-> Len(Run.composites), nsubs |-> Len(S.subs), ncalls |-> Len(S.derive_calls), cas |-> S.has_compact_as,
                         c05bad |-> C05_BadDefs, c18bad |-> C18_Bad,
                         outs |-> {Evs[i].out : i \in {j \in DOMAIN Evs : Evs[j].ev = "visit"}}]))
=================================================================================
