-------------------------------- MODULE TV_C09 --------------------------------
(* Judgement of the switch cases: run 1 is the base settings, runs 2..7 flip one switch each. *)
EXTENDS Switches, Json, IOUtils

Obs == ndJsonDeserialize(IOEnv.OBS)
VARIABLE c
Init == c \in 1..Len(Obs)
Next == UNCHANGED c
Spec == Init /\ [][Next]_c

O == Obs[c]
Reg == O.input.runs[1].reg
Sx(k) == O.input.runs[k].settings
RootK(k) == RootOf(O.runs[k].gen.module)
Items(k) == AllItems(RootK(k))

Failed ==
  (IF \A k \in DOMAIN O.runs : O.runs[k].gen.res = "ok" /\ O.runs[k].gen.parse_ok THEN {} ELSE {"C09.Generates"})
  \cup UNION {{"C09." \o x : x \in (IF O.runs[k].gen.res = "ok" THEN SwitchRulesFailed(Reg, Sx(k), Items(k)) ELSE {})} : k \in DOMAIN O.runs}
  \cup UNION {IF O.runs[1].gen.res = "ok" /\ O.runs[k].gen.res = "ok"
                 /\ CanonOfProjection(RootK(1), Sx(1), O.input.switches[k - 1]) # CanonOfProjection(RootK(k), Sx(k), O.input.switches[k - 1])
              THEN {"C09.Orthogonal_" \o O.input.switches[k - 1]} ELSE {} : k \in 2..Len(O.runs)}
  \* the module tree itself: only the root identifier changes under a root rename
  \cup (IF \E k \in DOMAIN O.runs : O.runs[k].gen.res = "ok" /\ RootK(k).name # Sx(k).root THEN {"C09.RootName"} ELSE {})

Verdict == PrintT("V " \o ToJson([case |-> O.case, failed |-> Failed, known |-> {}, drift |-> FALSE,
                                  nontrivial |-> \E k \in DOMAIN Items(1) : Len(AllFields(Items(1)[k].it)) > 0]))
=================================================================================
