-------------------------------- MODULE TV_C15 --------------------------------
(* Trace validation of the real formatter against Formatter.tla.  Every observation is a *)
(* case: input, output and one hook event per consumed character.  Each event is stepped *)
(* through the same action the model checker explored; at the end of a trace the abstract *)
(* predicates of C15 are evaluated on what the implementation produced.                   *)
EXTENDS Formatter, TLC, Json, IOUtils

Obs == ndJsonDeserialize(IOEnv.OBS)

VARIABLES c, l, st, rejected
vars == <<c, l, st, rejected>>

O == Obs[c]
HasEv == l < Len(O.events)

Init == /\ c \in 1..Len(Obs)
        /\ l = 0
        /\ st = InitState
        /\ rejected = FALSE

Step == /\ HasEv /\ ~rejected
        /\ st.pos < Len(O.in)
        /\ LET e == O.events[l + 1]
               s2 == StepState(O.in, st)
           IN /\ e.ev = "fmt"
              /\ e.ch = O.in[st.pos + 1]
              /\ e.indent = s2.indent
              /\ e.tuple = Top(s2.tuple)
              /\ e.angle = Top(s2.angle)
              /\ e.out = Len(s2.out)
              /\ st' = s2
        /\ l' = l + 1
        /\ UNCHANGED <<c, rejected>>

Reject == /\ HasEv /\ ~rejected /\ ~ENABLED Step
          /\ rejected' = TRUE
          /\ UNCHANGED <<c, l, st>>

Next == Step \/ Reject
Spec == Init /\ [][Next]_vars

Terminal == rejected \/ ~HasEv

Failed == (IF O.res = "ok" THEN {} ELSE {"NoPanic"})
          \cup (IF O.res # "ok" \/ OnlyInsertsWhitespace(O.in, O.out) THEN {} ELSE {"Strip"})
          \cup (IF O.res # "ok" \/ IndentationDiscipline(O.in, O.out) THEN {} ELSE {"Indent"})

Drift == O.res = "ok" /\ (rejected \/ l # Len(O.in) \/ st.out # O.out)

Verdict == Terminal =>
  PrintT("V " \o ToJson([case |-> O.case, ok |-> Failed = {}, failed |-> Failed,
                         drift |-> Drift, at |-> l, nontrivial |-> \E i \in 1..Len(O.in) : O.in[i] \in Openers]))
=================================================================================
