CONSTANTS
  MAXTOK = 32
SPECIFICATION Spec
INVARIANTS Verdict
CHECK_DEADLOCK FALSE
