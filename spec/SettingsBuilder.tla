-------------------------------- MODULE SettingsBuilder --------------------------------
(* The settings builders (DerivesRegistry, TypeSubstitutes) as a state machine over call      *)
(* histories (C16), and settings validation / the similar-path query (C11).                   *)
(* Abstract state: global derive and attribute sets, two maps path -> (derives, attributes)   *)
(* for type-specific and recursive registrations, and the substitute rules keyed by source    *)
(* path (generic arguments ignored).  One action per public call, with valid and invalid      *)
(* arguments; a rejected call leaves the state unchanged.                                     *)
EXTENDS Typegen, SettingsPool

(* a call = [op, path, items, recursive, src, dst, srcForm, dstForm, elems]                    *)
(*   srcForm: "ok" | "paren" (Foo(A,B)) | "nonident" (Foo<Vec<T>>)                             *)
(*   dstForm: "ok" | "relative" | "paren" | "nonpath" (Foo<(A,B)>)                             *)
NoTree == TPath(FALSE, <<>>, <<>>)
DeriveCall(op, path, items, rec) ==
  [op |-> op, path |-> path, items |-> items, recursive |-> rec, src |-> NoTree, dst |-> NoTree, srcForm |-> "ok", dstForm |-> "ok",
   srcText |-> "", dstText |-> "", elems |-> <<>>]
RECURSIVE RenderTree(_)
RenderTree(t) ==
  CASE t.k = "path" -> (IF t.lead THEN "::" ELSE "") \o JoinWith(t.segs, "::")
                       \o (IF Len(t.args) = 0 THEN "" ELSE "<" \o JoinWith([i \in DOMAIN t.args |-> RenderTree(t.args[i])], ", ") \o ">")
    [] t.k = "qpath" -> (IF t.lead THEN "::" ELSE "") \o JoinWith([sg \in DOMAIN t.segs |-> t.segs[sg] \o (IF Len(t.segargs[sg]) = 0 THEN "" ELSE "<" \o JoinWith([i \in DOMAIN t.segargs[sg] |-> RenderTree(t.segargs[sg][i])], ", ") \o ">")], "::")
    [] t.k = "tup" -> "(" \o JoinWith([i \in DOMAIN t.elems |-> RenderTree(t.elems[i])], ", ") \o (IF Len(t.elems) = 1 THEN ",)" ELSE ")")
    [] t.k = "arr" -> "[" \o RenderTree(t.of) \o "; " \o ToString(t.len) \o "]"
    [] OTHER -> t.text
RECURSIVE RenderNoSpace(_)
RenderNoSpace(t) ==
  CASE t.k = "path" -> (IF t.lead THEN "::" ELSE "") \o JoinWith(t.segs, "::")
                       \o (IF Len(t.args) = 0 THEN "" ELSE "<" \o JoinWith([i \in DOMAIN t.args |-> RenderNoSpace(t.args[i])], ",") \o ">")
    [] t.k = "tup" -> "(" \o JoinWith([i \in DOMAIN t.elems |-> RenderNoSpace(t.elems[i])], ",") \o (IF Len(t.elems) = 1 THEN ",)" ELSE ")")
    [] t.k = "arr" -> "[" \o RenderNoSpace(t.of) \o ";" \o ToString(t.len) \o "]"
    [] OTHER -> t.text
RenderParen(t) == (IF t.lead THEN "::" ELSE "") \o JoinWith(t.segs, "::") \o "(" \o JoinWith([i \in DOMAIN t.args |-> RenderTree(t.args[i])], ", ") \o ")"
Elem(src, dst, srcForm, dstForm) ==
  [src |-> src, dst |-> dst, srcForm |-> srcForm, dstForm |-> dstForm,
   srcText |-> IF srcForm = "paren" THEN RenderParen(src) ELSE RenderTree(src),
   dstText |-> IF dstForm = "paren" THEN RenderParen(dst) ELSE RenderTree(dst)]
SubCall(op, src, dst, srcForm, dstForm) ==
  LET e == Elem(src, dst, srcForm, dstForm) IN
  [op |-> op, path |-> NoTree, items |-> <<>>, recursive |-> FALSE, src |-> src, dst |-> dst, srcForm |-> srcForm, dstForm |-> dstForm,
   srcText |-> e.srcText, dstText |-> e.dstText, elems |-> <<>>]
ExtendCall(elems) ==
  [op |-> "extend", path |-> NoTree, items |-> <<>>, recursive |-> FALSE, src |-> NoTree, dst |-> NoTree, srcForm |-> "ok", dstForm |-> "ok",
   srcText |-> "", dstText |-> "", elems |-> elems]

(* ---- the documented error kind of one (source, target) pair, in the order the checks are made ---- *)
IsAbsolute(t) == t.lead \/ (Len(t.segs) > 0 /\ t.segs[1] = "crate")
PairKind(e) ==
  IF e.dstForm = "relative" \/ ~IsAbsolute(e.dst) THEN "ExpectedAbsolutePath"
  ELSE IF e.srcForm = "paren" THEN "ExpectedAngleBracketGenerics"
  ELSE IF e.srcForm = "nonident" \/ \E i \in DOMAIN e.src.args : SingleIdent(e.src.args[i]) = "" THEN "InvalidFromType"
  ELSE IF e.dstForm = "paren" THEN "ExpectedAngleBracketGenerics"
  ELSE IF e.dstForm = "nonpath" \/ \E i \in DOMAIN e.dst.args : e.dst.args[i].k # "path" THEN "InvalidToType"
  ELSE "ok"

(* ---- abstract state ---- *)
BInit == [gd |-> {}, ga |-> {}, calls |-> <<>>, rules |-> <<>>]
\* calls: the accepted derive/attribute registrations (their accumulated meaning is a set union: see FlatDerives)
\* rules: Seq of [src, dst], at most one per source path, in order of first insertion
RuleIdx(rules, segs) == LET idx == {i \in DOMAIN rules : rules[i].src.segs = segs} IN IF idx = {} THEN 0 ELSE CHOOSE i \in idx : TRUE
PutRule(rules, e, overwrite) ==
  LET k == RuleIdx(rules, e.src.segs)
      r == [src |-> e.src, dst |-> e.dst]
  IN IF k = 0 THEN Append(rules, r) ELSE IF overwrite THEN [rules EXCEPT ![k] = r] ELSE rules

\* extend inserts the elements in order and stops at the first invalid one (the prefix stays)
RECURSIVE ExtendFrom(_, _, _)
ExtendFrom(rules, elems, i) ==
  IF i > Len(elems) THEN [rules |-> rules, res |-> "ok"]
  ELSE IF PairKind(elems[i]) # "ok" THEN [rules |-> rules, res |-> PairKind(elems[i])]
  ELSE ExtendFrom(PutRule(rules, elems[i], TRUE), elems, i + 1)

\* one call: returns [st, res]
Apply(st, call) ==
  CASE call.op \in {"all_d", "all_a", "for_d", "for_a"} ->
         [st |-> [st EXCEPT !.calls = Append(@, [op |-> call.op, path |-> call.path, items |-> call.items, recursive |-> call.recursive])], res |-> "ok"]
    [] call.op = "insert" ->
         LET k == PairKind(call) IN
         IF k # "ok" THEN [st |-> st, res |-> k] ELSE [st |-> [st EXCEPT !.rules = PutRule(@, call, TRUE)], res |-> "ok"]
    [] call.op = "insert_if_not_exists" ->
         LET k == PairKind(call) IN
         IF k # "ok" THEN [st |-> st, res |-> k] ELSE [st |-> [st EXCEPT !.rules = PutRule(@, call, FALSE)], res |-> "ok"]
    [] call.op = "extend" ->
         \* an element with a relative target is refused when the AbsolutePath values are built, before extend runs
         IF \E i \in DOMAIN call.elems : call.elems[i].dstForm = "relative" \/ ~IsAbsolute(call.elems[i].dst)
         THEN [st |-> st, res |-> "ExpectedAbsolutePath"]
         ELSE LET r == ExtendFrom(st.rules, call.elems, 1) IN [st |-> [st EXCEPT !.rules = r.rules], res |-> r.res]

\* the settings record the accumulated state stands for
SettingsOf(base, st) == [base EXCEPT !.derive_calls = st.calls, !.subs = st.rules]

(* ---- C16, abstractly: what the history means, by comprehension over the history (no state machine) ---- *)
RECURSIVE RulesOfHistory(_, _, _)
RulesOfHistory(h, i, rules) ==
  IF i > Len(h) THEN rules
  ELSE LET c == h[i] IN
       IF c.op = "insert" /\ PairKind(c) = "ok" THEN RulesOfHistory(h, i + 1, PutRule(rules, c, TRUE))
       ELSE IF c.op = "insert_if_not_exists" /\ PairKind(c) = "ok" THEN RulesOfHistory(h, i + 1, PutRule(rules, c, FALSE))
       ELSE RulesOfHistory(h, i + 1, rules)
\* rule in force for a path after history h (ignoring extend, which has the may-clause): last accepted insert, insert-if-absent never replaces
DerivesOfHistory(h, op, pathStr, rec) ==
  UNION {RangeOf(h[i].items) : i \in {j \in DOMAIN h : h[j].op = op /\ (op \in {"all_d", "all_a"} \/ (PathStrOfTree(h[j].path) = pathStr /\ h[j].recursive = rec))}}

(* ------------------------------ validation (C11) ------------------------------ *)
RegHasPath(reg, segs) == \E i \in Ids(reg) : Ty(reg, i).path = segs
EntryPaths(S, ops) == {S.derive_calls[i].path.segs : i \in {j \in DOMAIN S.derive_calls : S.derive_calls[j].op \in ops}}
\* reference result by comprehension: exactly the unknown paths, each once, with everything registered for them in either map
UnknownPaths(reg, S) == {p \in EntryPaths(S, {"for_d", "for_a"}) : ~RegHasPath(reg, p)}
AllDerivesFor(S, p) == UNION {RangeOf(S.derive_calls[i].items) : i \in {j \in DOMAIN S.derive_calls : S.derive_calls[j].op = "for_d" /\ S.derive_calls[j].path.segs = p}}
AllAttrsFor(S, p) == UNION {RangeOf(S.derive_calls[i].items) : i \in {j \in DOMAIN S.derive_calls : S.derive_calls[j].op = "for_a" /\ S.derive_calls[j].path.segs = p}}
RefDerivesUnknown(reg, S) == {<<PathStr(p), AllDerivesFor(S, p)>> : p \in {q \in UnknownPaths(reg, S) : AllDerivesFor(S, q) # {}}}
RefAttrsUnknown(reg, S) == {<<PathStr(p), AllAttrsFor(S, p)>> : p \in {q \in UnknownPaths(reg, S) : AllAttrsFor(S, q) # {}}}
RefSubsUnknown(reg, rules) == {<<PathStr(rules[i].src.segs), RenderNoSpace(rules[i].dst)>> : i \in {j \in DOMAIN rules : ~RegHasPath(reg, rules[j].src.segs)}}
RefValid(reg, S, rules) == UnknownPaths(reg, S) = {} /\ RefSubsUnknown(reg, rules) = {}
\* similar paths: registry order filter on the final identifier (repeated paths removed on both sides)
RECURSIVE Dedupe(_, _, _)
Dedupe(s, i, acc) == IF i > Len(s) THEN acc ELSE Dedupe(s, i + 1, IF \E k \in DOMAIN acc : acc[k] = s[i] THEN acc ELSE Append(acc, s[i]))
RefSimilar(reg, q) ==
  IF Len(q) = 0 THEN <<>>
  ELSE Dedupe(SelectSeq([i \in DOMAIN reg |-> reg[i].path], LAMBDA p : Len(p) > 0 /\ p[Len(p)] = q[Len(q)]), 1, <<>>)

(* the validation loop as coded: entries of the specific map then of the recursive map (each in arbitrary - HashMap - *)
(* order), merged by path into the two error lists                                                                    *)
MergeInto(list, p, items) ==
  LET k == {i \in DOMAIN list : list[i][1] = p} IN
  IF k = {} THEN Append(list, <<p, items>>) ELSE [list EXCEPT ![CHOOSE i \in k : TRUE] = <<p, @[2] \cup items>>]
\* one map entry = (path, rec flag); its derives / attributes are the unions registered under that map
EntryDerives(S, p, rec) == UNION {RangeOf(S.derive_calls[i].items) : i \in {j \in DOMAIN S.derive_calls : S.derive_calls[j].op = "for_d" /\ S.derive_calls[j].path.segs = p /\ S.derive_calls[j].recursive = rec}}
EntryAttrs(S, p, rec) == UNION {RangeOf(S.derive_calls[i].items) : i \in {j \in DOMAIN S.derive_calls : S.derive_calls[j].op = "for_a" /\ S.derive_calls[j].path.segs = p /\ S.derive_calls[j].recursive = rec}}
MapEntries(S) == {<<S.derive_calls[i].path.segs, S.derive_calls[i].recursive>> : i \in {j \in DOMAIN S.derive_calls : S.derive_calls[j].op \in {"for_d", "for_a"}}}
VStep(reg, S, vst, entry) ==
  LET p == entry[1]
      ps == PathStr(p) IN
  IF RegHasPath(reg, p) THEN vst
  ELSE [vst EXCEPT !.attrs = IF EntryAttrs(S, p, entry[2]) = {} THEN @ ELSE MergeInto(@, ps, EntryAttrs(S, p, entry[2])),
                   !.derives = IF EntryDerives(S, p, entry[2]) = {} THEN @ ELSE MergeInto(@, ps, EntryDerives(S, p, entry[2]))]
=========================================================================================
