-------------------------------- MODULE Describe --------------------------------
(* description/src/description.rs: concrete model of type_description (expand-once-then-name  *)
(* policy through the Transformer cache) producing the lexed token sequence of the text, and  *)
(* the abstract acceptor DescAccepts: a lock-step walk of registry and tokens in which every  *)
(* occurrence of a named type is a full expansion or Name<args>, fields / variants /          *)
(* primitives / array lengths / tuple arity / Box / Compact / Vec match in order, and every    *)
(* struct or enum reachable through fields and element types is expanded at least once.       *)
EXTENDS Transformer

PrimText(p) == IF p = "str" THEN "String" ELSE p
Toks(s) == s

(* ---- type_name_with_type_params: direct recursion, no cache ---- *)
RECURSIVE TypeName(_, _, _)
RECURSIVE CommaJoin(_)
CommaJoin(ss) == IF Len(ss) = 0 THEN <<>> ELSE IF Len(ss) = 1 THEN ss[1] ELSE ss[1] \o <<",">> \o CommaJoin(Tail(ss))
TypeName(reg, id, fuel) ==
  IF fuel = 0 \/ ~HasId(reg, id) THEN <<"?">> ELSE
  LET e == Ty(reg, id)  d == e.def IN
  CASE d.k = "seq" -> <<"Vec", "<">> \o TypeName(reg, d.of, fuel - 1) \o <<">">>
    [] d.k = "arr" -> <<"[">> \o TypeName(reg, d.of, fuel - 1) \o <<";", ToString(d.len), "]">>
    [] d.k = "tup" -> <<"(">> \o CommaJoin([i \in DOMAIN d.elems |-> TypeName(reg, d.elems[i], fuel - 1)])
                      \o (IF Len(d.elems) = 1 THEN <<",">> ELSE <<>>) \o <<")">>
    [] d.k = "prim" -> <<PrimText(d.p)>>
    [] d.k = "compact" -> <<"Compact", "<">> \o TypeName(reg, d.of, fuel - 1) \o <<">">>
    [] d.k = "bits" -> <<"BitSequence">>
    [] OTHER -> IF Len(e.path) = 0 THEN <<"_">>
                ELSE <<Ident(e.path)>> \o (IF Len(e.params) = 0 THEN <<>>
                       ELSE <<"<">> \o CommaJoin([i \in DOMAIN e.params |-> IF e.params[i].ty = -1 THEN <<"_">> ELSE TypeName(reg, e.params[i].ty, fuel - 1)]) \o <<">">>)
NameOf(reg, id) == TypeName(reg, id, Len(reg) + 2)

(* ---- concrete model: returns [ok, toks, cache] with cache a sequence of [id, st, toks] ---- *)
CGet(cache, id) == LET idx == {i \in DOMAIN cache : cache[i].id = id} IN IF idx = {} THEN [id |-> id, st |-> "miss", toks |-> <<>>] ELSE cache[CHOOSE i \in idx : TRUE]
CPut(cache, id, st, toks) ==
  LET idx == {i \in DOMAIN cache : cache[i].id = id} IN
  IF idx = {} THEN Append(cache, [id |-> id, st |-> st, toks |-> toks])
  ELSE [i \in DOMAIN cache |-> IF cache[i].id = id THEN [id |-> id, st |-> st, toks |-> toks] ELSE cache[i]]
DOk(toks, cache) == [ok |-> TRUE, toks |-> toks, cache |-> cache]
DErr(cache) == [ok |-> FALSE, toks |-> <<>>, cache |-> cache]

RECURSIVE DResolve(_, _, _, _)
RECURSIVE DFields(_, _, _, _)
RECURSIVE DList(_, _, _, _, _)

\* resolve a list of ids in order, collecting their token lists
DList(reg, ids, cache, acc, fuel) ==
  IF Len(ids) = 0 THEN [ok |-> TRUE, parts |-> acc, cache |-> cache]
  ELSE LET r == DResolve(reg, Head(ids), cache, fuel) IN
       IF ~r.ok THEN [ok |-> FALSE, parts |-> acc, cache |-> r.cache] ELSE DList(reg, Tail(ids), r.cache, Append(acc, r.toks), fuel)

\* fields_type_description
DFields(reg, fields, cache, fuel) ==
  IF Len(fields) = 0 THEN DOk(<<"(", ")">>, cache)
  ELSE IF MixedFields(fields) THEN DErr(cache)
  ELSE LET r == DList(reg, [i \in DOMAIN fields |-> fields[i].ty], cache, <<>>, fuel) IN
       IF ~r.ok THEN DErr(r.cache)
       ELSE LET named == AllNamed(fields)
                one(i) == (IF named THEN <<fields[i].name, ":">> ELSE <<>>)
                          \o (IF \E k \in 1..(Len(fields[i].tn) - 3) : SubSeq(fields[i].tn, k, k + 3) = "Box<" THEN <<"Box", "<">> \o r.parts[i] \o <<">">> ELSE r.parts[i])
            IN DOk(<<IF named THEN "{" ELSE "(">> \o CommaJoin([i \in DOMAIN fields |-> one(i)]) \o <<IF named THEN "}" ELSE ")">>, r.cache)

DResolve(reg, id, cache, fuel) ==
  IF fuel = 0 \/ ~HasId(reg, id) THEN DErr(cache)
  ELSE
  LET e == Ty(reg, id)
      d == e.def
      named == Len(e.path) > 0
      c == CGet(cache, id)
  IN
  IF c.st = "recursive" /\ named THEN DOk(NameOf(reg, id), cache)
  ELSE IF c.st = "computed" THEN DOk(IF named THEN NameOf(reg, id) ELSE c.toks, cache)
  ELSE
  LET cache1 == CPut(cache, id, "recursive", <<>>)
      head == (IF d.k = "var" THEN <<"enum">> ELSE IF d.k = "comp" THEN <<"struct">> ELSE <<>>) \o (IF named THEN NameOf(reg, id) ELSE <<>>)
      Finish(r, body) == IF ~r.ok THEN DErr(r.cache) ELSE DOk(head \o body, CPut(r.cache, id, "computed", head \o body))
  IN
  CASE d.k = "comp" -> LET r == DFields(reg, d.fields, cache1, fuel - 1) IN Finish(r, r.toks)
    [] d.k = "var" ->
         LET RECURSIVE Vars(_, _, _)
             Vars(i, ch, acc) ==
               IF i > Len(d.variants) THEN [ok |-> TRUE, toks |-> acc, cache |-> ch]
               ELSE LET r == DFields(reg, d.variants[i].fields, ch, fuel - 1) IN
                    IF ~r.ok THEN [ok |-> FALSE, toks |-> acc, cache |-> r.cache]
                    ELSE Vars(i + 1, r.cache, acc \o (IF i > 1 THEN <<",">> ELSE <<>>) \o <<d.variants[i].name>> \o (IF r.toks = <<"(", ")">> THEN <<>> ELSE r.toks))
             rv == Vars(1, cache1, <<>>)
         IN Finish(rv, <<"{">> \o rv.toks \o <<"}">>)
    [] d.k = "seq" -> LET r == DResolve(reg, d.of, cache1, fuel - 1) IN Finish(r, <<"Vec", "<">> \o r.toks \o <<">">>)
    [] d.k = "arr" -> LET r == DResolve(reg, d.of, cache1, fuel - 1) IN Finish(r, <<"[">> \o r.toks \o <<";", ToString(d.len), "]">>)
    [] d.k = "tup" -> LET r == DList(reg, d.elems, cache1, <<>>, fuel - 1) IN
                      IF ~r.ok THEN DErr(r.cache)
                      ELSE Finish([ok |-> TRUE, cache |-> r.cache], <<"(">> \o CommaJoin(r.parts) \o (IF Len(d.elems) = 1 THEN <<",">> ELSE <<>>) \o <<")">>)
    [] d.k = "prim" -> Finish([ok |-> TRUE, cache |-> cache1], <<PrimText(d.p)>>)
    [] d.k = "compact" -> LET r == DResolve(reg, d.of, cache1, fuel - 1) IN Finish(r, <<"Compact", "<">> \o r.toks \o <<">">>)
    [] d.k = "bits" -> LET ro == DResolve(reg, d.order, cache1, fuel - 1) IN
                       IF ~ro.ok THEN DErr(ro.cache)
                       ELSE LET rs == DResolve(reg, d.store, ro.cache, fuel - 1) IN
                            Finish(rs, <<"BitSequence", "(">> \o ro.toks \o <<",">> \o rs.toks \o <<")">>)
Description(reg, id) == DResolve(reg, id, <<>>, 4 * Len(reg) + 8)

(* ---------------------------- abstract acceptor (C13) ---------------------------- *)
\* result: [ok, pos, exp] - next token position and the set of struct/enum ids expanded so far
AOk(pos, exp) == [ok |-> TRUE, pos |-> pos, exp |-> exp]
AFail == [ok |-> FALSE, pos |-> 0, exp |-> {}]
Tok(toks, pos) == IF pos <= Len(toks) THEN toks[pos] ELSE ""
\* match a literal token sequence
RECURSIVE Lits(_, _, _)
Lits(toks, pos, lits) == IF Len(lits) = 0 THEN pos ELSE IF Tok(toks, pos) = Head(lits) THEN Lits(toks, pos + 1, Tail(lits)) ELSE 0

RECURSIVE Acc(_, _, _, _, _)
RECURSIVE AccFields(_, _, _, _, _)
RECURSIVE AccList(_, _, _, _, _, _)
\* a list of ids separated by commas
AccList(reg, ids, toks, pos, exp, fuel) ==
  IF Len(ids) = 0 THEN AOk(pos, exp)
  ELSE LET r == Acc(reg, Head(ids), toks, pos, exp) IN
       IF ~r.ok \/ fuel = 0 THEN AFail
       ELSE IF Len(ids) = 1 THEN r
       ELSE IF Tok(toks, r.pos) # "," THEN AFail ELSE AccList(reg, Tail(ids), toks, r.pos + 1, r.exp, fuel - 1)

AccFields(reg, fields, toks, pos, exp) ==
  IF Len(fields) = 0 THEN (IF Lits(toks, pos, <<"(", ")">>) > 0 THEN AOk(pos + 2, exp) ELSE AFail)
  ELSE LET named == AllNamed(fields)
           open == IF named THEN "{" ELSE "("
           close == IF named THEN "}" ELSE ")"
           RECURSIVE Each(_, _, _)
           Each(i, p, ex) ==
             IF i > Len(fields) THEN AOk(p, ex)
             ELSE LET f == fields[i]
                      p1 == IF named THEN Lits(toks, p, <<f.name, ":">>) ELSE p
                      boxed == \E k \in 1..(Len(f.tn) - 3) : SubSeq(f.tn, k, k + 3) = "Box<"
                      p2 == IF p1 = 0 THEN 0 ELSE IF boxed THEN Lits(toks, p1, <<"Box", "<">>) ELSE p1
                  IN IF p2 = 0 THEN AFail
                     ELSE LET r == Acc(reg, f.ty, toks, p2, ex) IN
                          IF ~r.ok THEN AFail
                          ELSE LET p3 == IF boxed THEN Lits(toks, r.pos, <<">">>) ELSE r.pos IN
                               IF p3 = 0 THEN AFail
                               ELSE IF i = Len(fields) THEN AOk(p3, r.exp)
                               ELSE IF Tok(toks, p3) # "," THEN AFail ELSE Each(i + 1, p3 + 1, r.exp)
       IN IF MixedFields(fields) \/ Tok(toks, pos) # open THEN AFail
          ELSE LET r == Each(1, pos + 1, exp) IN
               IF ~r.ok \/ Tok(toks, r.pos) # close THEN AFail ELSE AOk(r.pos + 1, r.exp)

Acc(reg, id, toks, pos, exp) ==
  IF ~HasId(reg, id) THEN AFail ELSE
  LET e == Ty(reg, id)
      d == e.def
      named == Len(e.path) > 0
      nm == NameOf(reg, id)
  IN
  IF IsNamedDef(d) THEN
     IF Tok(toks, pos) \in {"struct", "enum"} THEN
        \* full expansion: keyword, name with arguments, body
        LET kw == IF d.k = "var" THEN "enum" ELSE "struct"
            p1 == IF Tok(toks, pos) = kw THEN (IF named THEN Lits(toks, pos + 1, nm) ELSE pos + 1) ELSE 0
        IN IF p1 = 0 THEN AFail
           ELSE IF d.k = "comp" THEN AccFields(reg, d.fields, toks, p1, exp \cup {id})
           ELSE IF Tok(toks, p1) # "{" THEN AFail
           ELSE LET RECURSIVE EachV(_, _, _)
                    EachV(i, p, ex) ==
                      IF i > Len(d.variants) THEN AOk(p, ex)
                      ELSE LET pn == Lits(toks, p, <<d.variants[i].name>>) IN
                           IF pn = 0 THEN AFail
                           ELSE LET r == IF Len(d.variants[i].fields) = 0 THEN AOk(pn, ex) ELSE AccFields(reg, d.variants[i].fields, toks, pn, ex) IN
                                IF ~r.ok THEN AFail
                                ELSE IF i = Len(d.variants) THEN r
                                ELSE IF Tok(toks, r.pos) # "," THEN AFail ELSE EachV(i + 1, r.pos + 1, r.exp)
                    rv == EachV(1, p1 + 1, exp \cup {id})
                IN IF ~rv.ok \/ Tok(toks, rv.pos) # "}" THEN AFail ELSE AOk(rv.pos + 1, rv.exp)
     ELSE \* referred to by its name and generic arguments (only types with a name can be)
          IF ~named THEN AFail
          ELSE LET p1 == Lits(toks, pos, nm) IN IF p1 = 0 THEN AFail ELSE AOk(p1, exp)
  ELSE
  CASE d.k = "prim" -> IF Tok(toks, pos) = PrimText(d.p) THEN AOk(pos + 1, exp) ELSE AFail
    [] d.k = "seq" -> LET p1 == Lits(toks, pos, <<"Vec", "<">>) IN
                      IF p1 = 0 THEN AFail ELSE LET r == Acc(reg, d.of, toks, p1, exp) IN IF ~r.ok \/ Tok(toks, r.pos) # ">" THEN AFail ELSE AOk(r.pos + 1, r.exp)
    [] d.k = "compact" -> LET p1 == Lits(toks, pos, <<"Compact", "<">>) IN
                      IF p1 = 0 THEN AFail ELSE LET r == Acc(reg, d.of, toks, p1, exp) IN IF ~r.ok \/ Tok(toks, r.pos) # ">" THEN AFail ELSE AOk(r.pos + 1, r.exp)
    [] d.k = "arr" -> IF Tok(toks, pos) # "[" THEN AFail
                      ELSE LET r == Acc(reg, d.of, toks, pos + 1, exp) IN
                           IF ~r.ok THEN AFail ELSE LET p2 == Lits(toks, r.pos, <<";", ToString(d.len), "]">>) IN IF p2 = 0 THEN AFail ELSE AOk(p2, r.exp)
    [] d.k = "tup" -> IF Tok(toks, pos) # "(" THEN AFail
                      ELSE LET r == AccList(reg, d.elems, toks, pos + 1, exp, Len(d.elems) + 1) IN
                           IF ~r.ok THEN AFail
                           ELSE LET p2 == IF Len(d.elems) = 1 THEN Lits(toks, r.pos, <<",", ")">>) ELSE Lits(toks, r.pos, <<")">>) IN
                                IF p2 = 0 THEN AFail ELSE AOk(p2, r.exp)
    [] d.k = "bits" -> LET p1 == Lits(toks, pos, <<"BitSequence", "(">>) IN
                       IF p1 = 0 THEN AFail
                       ELSE LET ro == Acc(reg, d.order, toks, p1, exp) IN
                            IF ~ro.ok \/ Tok(toks, ro.pos) # "," THEN AFail
                            ELSE LET rs == Acc(reg, d.store, toks, ro.pos + 1, ro.exp) IN
                                 IF ~rs.ok \/ Tok(toks, rs.pos) # ")" THEN AFail ELSE AOk(rs.pos + 1, rs.exp)
    [] OTHER -> AFail

\* structs and enums reachable through fields and element types (type parameters alone do not count)
MustExpand(reg, id) == {j \in ReachDef(reg, id) : HasId(reg, j) /\ IsNamedDef(Ty(reg, j).def)}
DescAccepts(reg, id, toks) ==
  LET r == Acc(reg, id, toks, 1, {}) IN
  r.ok /\ r.pos = Len(toks) + 1 /\ MustExpand(reg, id) \subseteq r.exp
=================================================================================
