-------------------------------- MODULE RustSem --------------------------------
(* Reference semantics of the generated code in its projected form (DESIGN.md A.3):       *)
(* what a generated type path denotes (Faithful: a bisimulation between the SCALE shape   *)
(* the registry gives an id and the shape denoted by a closed Rust type term, looked up   *)
(* in the projected module) and when a projected module is closed, well-formed Rust.      *)
(*                                                                                         *)
(*  settings S = [root, alloc (path tree), docs, codec, has_compact, compact, has_bits,    *)
(*                bits, has_compact_as, compact_as, derive_calls, subs: Seq([src,dst])]     *)
(*  module     = [name, vis, uses, mods, items, others]                                    *)
(*  item       = [kind, name, generics, derives, attrs, docs, style, fields, variants, ..] *)
(*  tytree     = [k|->"path", lead, segs, args] | [k|->"tup", elems] | [k|->"arr", of, len] *)
(*             | [k|->"other", text]                                                       *)
EXTENDS Registry

TPath(lead, segs, args) == [k |-> "path", lead |-> lead, segs |-> segs, args |-> args]
\* a path with generic arguments on a segment that is not the last one: per-segment argument lists
QPath(lead, segs, segargs) == [k |-> "qpath", lead |-> lead, segs |-> segs, segargs |-> segargs]
IsPathTo(t, lead, segs) == t.k = "path" /\ t.lead = lead /\ t.segs = segs

AllocP(S, tail) == [lead |-> S.alloc.lead, segs |-> S.alloc.segs \o tail]
IsAlloc(S, t, tail) == t.k = "path" /\ t.lead = S.alloc.lead /\ t.segs = S.alloc.segs \o tail
CoreP(tail) == [lead |-> TRUE, segs |-> <<"core">> \o tail]

PrimTree(S, p) ==
  IF p = "str" THEN TPath(S.alloc.lead, S.alloc.segs \o <<"string", "String">>, <<>>)
  ELSE TPath(TRUE, <<"core", "primitive", p>>, <<>>)

IsBox(S, t) == IsAlloc(S, t, <<"boxed", "Box">>) /\ Len(t.args) = 1
RECURSIVE Unbox(_, _)
Unbox(S, t) == IF IsBox(S, t) THEN Unbox(S, t.args[1]) ELSE t

IsPhantom(t) == t.k = "path" /\ t.lead /\ t.segs = <<"core", "marker", "PhantomData">>
IsMarkerField(f) == f.skip \/ IsPhantom(f.ty)
IsIgnoreVariant(v) == v.name = "__Ignore" /\ Len(v.fields) = 1 /\ IsPhantom(v.fields[1].ty)

RealFields(fs) == LET K(f) == ~IsMarkerField(f) IN SelectSeq(fs, K)
RealVariants(vs) == LET K(v) == ~IsIgnoreVariant(v) IN SelectSeq(vs, K)

(* prelude path table of the generator (type_path.rs) plus the scale-info built-in Duration *)
PreludeTarget(S, name) ==
  CASE name = "Option" -> CoreP(<<"option", "Option">>)
    [] name = "Result" -> CoreP(<<"result", "Result">>)
    [] name \in {"BTreeMap", "BTreeSet", "BinaryHeap", "VecDeque", "LinkedList"} -> AllocP(S, <<"collections", name>>)
    [] name \in {"Range", "RangeInclusive"} -> CoreP(<<"ops", name>>)
    [] name = "Duration" -> CoreP(<<"time", "Duration">>)
    [] OTHER -> CoreP(<<"num", name>>)     \* NonZero*

(* ---- module lookup ---- *)
NoItem == [kind |-> "none"]
SubMod(M, name) == LET idx == {i \in DOMAIN M.mods : M.mods[i].name = name}
                   IN IF idx = {} THEN [name |-> ""] ELSE M.mods[CHOOSE i \in idx : TRUE]
ItemIn(M, name) == LET idx == {i \in DOMAIN M.items : M.items[i].name = name}
                   IN IF idx = {} THEN NoItem ELSE M.items[CHOOSE i \in idx : TRUE]
RECURSIVE FindIn(_, _)
FindIn(M, segs) ==   \* segs relative to M
  IF Len(segs) = 0 THEN NoItem
  ELSE IF Len(segs) = 1 THEN ItemIn(M, segs[1])
  ELSE LET m == SubMod(M, segs[1]) IN IF m.name = "" THEN NoItem ELSE FindIn(m, Tail(segs))
\* Root: the projected root module; segs = <<root, ...>>
FindItem(Root, segs) == IF Len(segs) < 2 \/ segs[1] # Root.name THEN NoItem ELSE FindIn(Root, Tail(segs))

RootOf(fileProj) == IF Len(fileProj.mods) = 1 THEN fileProj.mods[1]
                    ELSE [name |-> "", vis |-> TRUE, uses |-> <<>>, mods |-> <<>>, items |-> <<>>, others |-> <<>>]

(* ---- generic substitution on type trees (genv: Seq of [name, ty]) ---- *)
GenvHas(genv, n) == \E i \in DOMAIN genv : genv[i].name = n
GenvGet(genv, n) == genv[CHOOSE i \in DOMAIN genv : genv[i].name = n].ty
IsParamUse(t) == t.k = "path" /\ ~t.lead /\ Len(t.segs) = 1 /\ Len(t.args) = 0
RECURSIVE SubstTy(_, _)
SubstTy(t, genv) ==
  CASE t.k = "path" -> IF IsParamUse(t) /\ GenvHas(genv, t.segs[1]) THEN GenvGet(genv, t.segs[1])
                       ELSE [t EXCEPT !.args = [i \in DOMAIN @ |-> SubstTy(@[i], genv)]]
    [] t.k = "qpath" -> [t EXCEPT !.segargs = [sg \in DOMAIN @ |-> [i \in DOMAIN @[sg] |-> SubstTy(@[sg][i], genv)]]]
    [] t.k = "tup"  -> [t EXCEPT !.elems = [i \in DOMAIN @ |-> SubstTy(@[i], genv)]]
    [] t.k = "arr"  -> [t EXCEPT !.of = SubstTy(@, genv)]
    [] OTHER        -> t
Bind(generics, args) == [i \in DOMAIN generics |-> [name |-> generics[i], ty |-> args[i]]]

IsSubstituted(S, path) == \E i \in DOMAIN S.subs : S.subs[i].src.segs = path
\* the rule in force for a source path: the last one inserted
RuleFor(S, path) == S.subs[CHOOSE i \in DOMAIN S.subs : S.subs[i].src.segs = path /\ \A j \in DOMAIN S.subs : S.subs[j].src.segs = path => j <= i]
SingleIdent(t) == IF t.k = "path" /\ ~t.lead /\ Len(t.segs) = 1 /\ Len(t.args) = 0 THEN t.segs[1] ELSE ""
\* position of a declared source parameter name (first occurrence), 0 if none
SrcIdx(rule, n) == LET idx == {i \in DOMAIN rule.src.args : SingleIdent(rule.src.args[i]) = n} IN
                   IF n = "" \/ idx = {} THEN 0 ELSE CHOOSE i \in idx : \A j \in idx : i <= j

InAsm(asm, id, t) == \E i \in DOMAIN asm : asm[i][1] = id /\ asm[i][2] = t

LiveParams(e) == LET K(p) == p.ty # -1 IN SelectSeq(e.params, K)

\* Cow is transparent on the registry side
RECURSIVE UnCow(_, _)
UnCow(reg, id) == IF HasId(reg, id) /\ Ty(reg, id).path = <<"Cow">> /\ Len(Ty(reg, id).params) = 1 /\ Ty(reg, id).params[1].ty # -1
                  THEN UnCow(reg, Ty(reg, id).params[1].ty) ELSE id

(* ------------------------------------ Faithful ------------------------------------ *)
RECURSIVE Faithful(_, _, _, _, _, _)
RECURSIVE FieldsFaithful(_, _, _, _, _, _, _)
RECURSIVE SubstMatch(_, _, _, _, _, _, _, _)

(* C07: an occurrence t of a substituted type matches the rule's target pattern: declared source *)
(* parameter names are replaced - at any path-argument depth - by a type faithful to the         *)
(* corresponding resolved argument (left untouched when the index is out of range), every       *)
(* other token unchanged.                                                                       *)
SubstMatch(reg, S, Root, rule, live, pat, t, asm) ==
  LET i == SrcIdx(rule, SingleIdent(pat)) IN
  IF i > 0 /\ i <= Len(live) THEN Faithful(reg, S, Root, live[i].ty, t, asm)
  ELSE IF pat.k = "path"
       THEN /\ t.k = "path" /\ t.lead = pat.lead /\ t.segs = pat.segs /\ Len(t.args) = Len(pat.args)
            /\ \A a \in DOMAIN pat.args : SubstMatch(reg, S, Root, rule, live, pat.args[a], t.args[a], asm)
  ELSE IF pat.k = "qpath"      \* generic arguments on inner segments, e.g. ::ext::Generic<A, B>::Output
       THEN /\ t.k = "qpath" /\ t.lead = pat.lead /\ t.segs = pat.segs /\ Len(t.segargs) = Len(pat.segargs)
            /\ \A sg \in DOMAIN pat.segargs : /\ Len(t.segargs[sg]) = Len(pat.segargs[sg])
                                               /\ \A a \in DOMAIN pat.segargs[sg] : SubstMatch(reg, S, Root, rule, live, pat.segargs[sg][a], t.segargs[sg][a], asm)
       ELSE t = pat

FieldsFaithful(reg, S, Root, rf, gf, genv, asm) ==
  /\ Len(rf) = Len(gf)
  /\ \A i \in DOMAIN rf :
       LET f == rf[i]
           g == gf[i]
           gt == SubstTy(g.ty, genv)
       IN /\ f.name = g.name
          /\ HasId(reg, f.ty)
          /\ IF g.compact
             THEN LET fid == UnCow(reg, f.ty) IN
                  /\ HasId(reg, fid) /\ Ty(reg, fid).def.k = "compact"
                  /\ Faithful(reg, S, Root, Ty(reg, fid).def.of, gt, asm)
             ELSE Faithful(reg, S, Root, f.ty, gt, asm)

Faithful(reg, S, Root, id, t0, asm) ==
  LET t == Unbox(S, t0) IN
  IF ~HasId(reg, id) THEN FALSE
  ELSE IF InAsm(asm, id, t) THEN TRUE
  ELSE
  LET e == Ty(reg, id)
      d == e.def
      asm2 == Append(asm, <<id, t>>)
      Rec(i, u) == Faithful(reg, S, Root, i, u, asm2)
  IN
  CASE d.k = "prim"    -> t = PrimTree(S, d.p)
    [] d.k = "seq"     -> IsAlloc(S, t, <<"vec", "Vec">>) /\ Len(t.args) = 1 /\ Rec(d.of, t.args[1])
    [] d.k = "arr"     -> t.k = "arr" /\ t.len = d.len /\ Rec(d.of, t.of)
    [] d.k = "tup"     -> t.k = "tup" /\ Len(t.elems) = Len(d.elems) /\ \A i \in DOMAIN d.elems : Rec(d.elems[i], t.elems[i])
    [] d.k = "compact" -> S.has_compact /\ t.k = "path" /\ t.lead = S.compact.lead /\ t.segs = S.compact.segs
                          /\ Len(t.args) = 1 /\ Rec(d.of, t.args[1])
    [] d.k = "bits"    -> S.has_bits /\ t.k = "path" /\ t.lead = S.bits.lead /\ t.segs = S.bits.segs
                          /\ Len(t.args) = 2 /\ Rec(d.store, t.args[1]) /\ Rec(d.order, t.args[2])
    [] d.k \in {"comp", "var"} ->
         IF IsSubstituted(S, e.path) THEN
              LET rule == RuleFor(S, e.path)
                  lp == LiveParams(e)
              IN IF Len(rule.src.args) = 0 /\ rule.dst.k = "path" /\ Len(rule.dst.args) = 0
                 THEN \* no declared generics: the original resolved arguments in order
                      /\ t.k = "path" /\ t.lead = rule.dst.lead /\ t.segs = rule.dst.segs /\ Len(t.args) = Len(lp)
                      /\ \A i \in DOMAIN lp : Rec(lp[i].ty, t.args[i])
                 ELSE SubstMatch(reg, S, Root, rule, lp, rule.dst, t, asm2)
         ELSE IF e.path = <<"Cow">> THEN Len(e.params) = 1 /\ e.params[1].ty # -1 /\ Rec(e.params[1].ty, t)
         ELSE IF Len(e.path) = 1 THEN
              LET tgt == PreludeTarget(S, e.path[1])
                  lp == LiveParams(e)
              IN /\ t.k = "path" /\ t.lead = tgt.lead /\ t.segs = tgt.segs
                 /\ Len(t.args) = Len(lp)
                 /\ \A i \in DOMAIN lp : Rec(lp[i].ty, t.args[i])
         ELSE
              /\ t.k = "path" /\ ~t.lead
              /\ LET it == FindItem(Root, t.segs) IN
                 /\ it.kind # "none"
                 /\ Len(t.args) = Len(it.generics)
                 /\ LET genv == Bind(it.generics, t.args) IN
                    IF d.k = "comp"
                    THEN /\ it.kind = "struct"
                         /\ FieldsFaithful(reg, S, Root, d.fields, RealFields(it.fields), genv, asm2)
                    ELSE /\ it.kind = "enum"
                         /\ LET vs == RealVariants(it.variants) IN
                            /\ Len(vs) = Len(d.variants)
                            /\ \A i \in DOMAIN vs :
                                 /\ vs[i].name = d.variants[i].name
                                 /\ (S.codec => vs[i].index = d.variants[i].index)
                                 /\ FieldsFaithful(reg, S, Root, d.variants[i].fields, RealFields(vs[i].fields), genv, asm2)
    [] OTHER -> FALSE

FaithfulTop(reg, S, Root, id, t) == Faithful(reg, S, Root, id, t, <<>>)

(* -------------------------------- WellFormedRust -------------------------------- *)
RECURSIVE RefersTo(_, _)
RefersTo(t, segs) ==   \* does the type tree mention the path (root-relative, no leading ::) anywhere?
  CASE t.k = "path" -> (~t.lead /\ t.segs = segs) \/ \E i \in DOMAIN t.args : RefersTo(t.args[i], segs)
    [] t.k = "qpath" -> \E sg \in DOMAIN t.segargs : \E i \in DOMAIN t.segargs[sg] : RefersTo(t.segargs[sg][i], segs)
    [] t.k = "tup"  -> \E i \in DOMAIN t.elems : RefersTo(t.elems[i], segs)
    [] t.k = "arr"  -> RefersTo(t.of, segs)
    [] OTHER -> FALSE

\* all (module path, module) pairs below Root, Root included
RECURSIVE ModsBelow(_, _)
ModsBelow(M, prefix) ==
  <<[path |-> prefix \o <<M.name>>, m |-> M]>>
  \o FlattenSeq([i \in DOMAIN M.mods |-> ModsBelow(M.mods[i], prefix \o <<M.name>>)])
AllMods(Root) == ModsBelow(Root, <<>>)
AllItems(Root) == FlattenSeq([i \in DOMAIN AllMods(Root) |->
                     [j \in DOMAIN AllMods(Root)[i].m.items |->
                        [path |-> AllMods(Root)[i].path \o <<AllMods(Root)[i].m.items[j].name>>,
                         it |-> AllMods(Root)[i].m.items[j]]]])

Distinct(s) == \A i, j \in DOMAIN s : i # j => s[i] # s[j]
UniqueNames(Root) ==
  \A k \in DOMAIN AllMods(Root) :
    LET m == AllMods(Root)[k].m IN
    Distinct([i \in DOMAIN m.items |-> m.items[i].name] \o [i \in DOMAIN m.mods |-> m.mods[i].name])

UseChain(Root) ==
  \A k \in DOMAIN AllMods(Root) :
    \E u \in DOMAIN AllMods(Root)[k].m.uses : AllMods(Root)[k].m.uses[u] = <<"super", Root.name>>

ItemFieldTys(it) ==
  IF it.kind = "struct" THEN [i \in DOMAIN it.fields |-> it.fields[i].ty]
  ELSE FlattenSeq([v \in DOMAIN it.variants |-> [i \in DOMAIN it.variants[v].fields |-> it.variants[v].fields[i].ty]])

\* number of generic type arguments that a known library path takes (-1: not a library path the generator emits by itself;
\* -2: never well-formed without a lifetime argument)
LibArity(t) ==
  IF ~t.lead THEN -1
  ELSE IF Len(t.segs) = 3 /\ t.segs[1] = "core" THEN
         CASE t.segs[2] = "option" /\ t.segs[3] = "Option" -> 1
           [] t.segs[2] = "result" /\ t.segs[3] = "Result" -> 2
           [] t.segs[2] = "ops" /\ t.segs[3] \in {"Range", "RangeInclusive"} -> 1
           [] t.segs[2] \in {"num", "time", "primitive"} -> 0
           [] t.segs[2] = "marker" /\ t.segs[3] = "PhantomData" -> 1
           [] OTHER -> -1
  ELSE IF Len(t.segs) >= 3 THEN
         LET tl == <<t.segs[Len(t.segs) - 1], t.segs[Len(t.segs)]>> IN
         CASE tl \in {<<"vec", "Vec">>, <<"boxed", "Box">>, <<"collections", "BTreeSet">>, <<"collections", "BinaryHeap">>,
                      <<"collections", "VecDeque">>, <<"collections", "LinkedList">>} -> 1
           [] tl = <<"collections", "BTreeMap">> -> 2
           [] tl = <<"string", "String">> -> 0
           [] tl = <<"borrow", "Cow">> -> -2
           [] OTHER -> -1
  ELSE -1

\* every root-relative path resolves with the right arity; bare single identifiers are generics of the item
RECURSIVE TyResolves(_, _, _)
TyResolves(Root, generics, t) ==
  CASE t.k = "path" ->
         /\ \A i \in DOMAIN t.args : TyResolves(Root, generics, t.args[i])
         /\ IF t.lead THEN LibArity(t) = -1 \/ LibArity(t) = Len(t.args)
            ELSE IF t.segs[1] = Root.name
                 THEN LET it == FindItem(Root, t.segs) IN it.kind # "none" /\ Len(t.args) = Len(it.generics)
            ELSE IF Len(t.segs) = 1 /\ Len(t.args) = 0 /\ (\E g \in DOMAIN generics : generics[g] = t.segs[1]) THEN TRUE
            ELSE ~(Len(t.segs) = 1 /\ Len(t.segs[1]) >= 2 /\ SubSeq(t.segs[1], 1, 1) = "_")  \* a stray `_i` is unresolved; other relative paths are configured by the user
    [] t.k = "qpath" -> \A sg \in DOMAIN t.segargs : \A i \in DOMAIN t.segargs[sg] : TyResolves(Root, generics, t.segargs[sg][i])
    [] t.k = "tup" -> \A i \in DOMAIN t.elems : TyResolves(Root, generics, t.elems[i])
    [] t.k = "arr" -> t.len >= 0 /\ TyResolves(Root, generics, t.of)
    [] OTHER -> TRUE

RECURSIVE Mentions(_, _)
Mentions(t, g) ==
  CASE t.k = "path" -> (IsParamUse(t) /\ t.segs[1] = g) \/ \E i \in DOMAIN t.args : Mentions(t.args[i], g)
    [] t.k = "qpath" -> \E sg \in DOMAIN t.segargs : \E i \in DOMAIN t.segargs[sg] : Mentions(t.segargs[sg][i], g)
    [] t.k = "tup"  -> \E i \in DOMAIN t.elems : Mentions(t.elems[i], g)
    [] t.k = "arr"  -> Mentions(t.of, g)
    [] OTHER -> FALSE

\* `#[codec(compact)]` needs a type with a compact encoding: an unsigned primitive, (), a generated wrapper or a parameter -
\* never a library container such as Box<..> or Vec<..>
ItemFields(it) ==
  IF it.kind = "struct" THEN it.fields
  ELSE FlattenSeq([v \in DOMAIN it.variants |-> it.variants[v].fields])
CompactAttrOK(f) == f.compact => ((f.ty.k = "path" /\ LibArity(f.ty) \in {-1, 0}) \/ (f.ty.k = "tup" /\ Len(f.ty.elems) = 0))
ItemOK(Root, it) ==
  /\ Distinct(it.generics)
  /\ \A i \in DOMAIN ItemFields(it) : CompactAttrOK(ItemFields(it)[i])
  /\ \A i \in DOMAIN ItemFieldTys(it) : TyResolves(Root, it.generics, ItemFieldTys(it)[i])
  /\ \A g \in DOMAIN it.generics : \E i \in DOMAIN ItemFieldTys(it) : Mentions(ItemFieldTys(it)[i], it.generics[g])
  /\ it.kind = "struct" => (it.semi <=> it.style \in {"unit", "unnamed"})
  /\ it.kind = "struct" => Distinct([i \in DOMAIN it.fields |-> IF it.fields[i].name = "" THEN ToString(i) ELSE it.fields[i].name])
  /\ it.kind = "enum" => Distinct([i \in DOMAIN it.variants |-> it.variants[i].name])

(* Sized: following field types inline (tuples, arrays, Option/Result/Range/Compact and *)
(* user items after instantiation), never re-entering a term on the inline stack; heap   *)
(* indirection (Vec, Box, collections) and marker types cut the walk.                    *)
HeapTails == {<<"vec", "Vec">>, <<"boxed", "Box">>, <<"collections", "BTreeMap">>, <<"collections", "BTreeSet">>,
              <<"collections", "BinaryHeap">>, <<"collections", "VecDeque">>, <<"collections", "LinkedList">>,
              <<"string", "String">>}
IsHeap(S, t) == t.k = "path" /\ \E tl \in HeapTails : IsAlloc(S, t, tl)
InlineExternal(t) == t.k = "path" /\ t.lead /\ Len(t.segs) = 3 /\ t.segs[1] = "core"
                     /\ t.segs[2] \in {"option", "result", "ops"}
SeqHas(s, x) == \E i \in DOMAIN s : s[i] = x
RECURSIVE SizedTy(_, _, _, _)
SizedTy(S, Root, t, stack) ==
  IF Len(stack) > 12 THEN TRUE
  ELSE CASE t.k = "tup" -> \A i \in DOMAIN t.elems : SizedTy(S, Root, t.elems[i], stack)
    [] t.k = "arr" -> t.len = 0 \/ SizedTy(S, Root, t.of, stack)
    [] t.k = "path" ->
         IF IsHeap(S, t) \/ IsPhantom(t) THEN TRUE
         ELSE IF InlineExternal(t) \/ (S.has_compact /\ t.lead = S.compact.lead /\ t.segs = S.compact.segs)
              THEN \A i \in DOMAIN t.args : SizedTy(S, Root, t.args[i], stack)
         ELSE IF ~t.lead /\ Len(t.segs) >= 2 /\ t.segs[1] = Root.name THEN
              LET it == FindItem(Root, t.segs) IN
              IF it.kind = "none" \/ Len(t.args) # Len(it.generics) THEN TRUE   \* reported by TyResolves
              ELSE IF SeqHas(stack, t) THEN FALSE
              ELSE LET genv == Bind(it.generics, t.args)
                       tys == ItemFieldTys(it)
                   IN \A i \in DOMAIN tys : SizedTy(S, Root, SubstTy(tys[i], genv), Append(stack, t))
         ELSE TRUE
    [] OTHER -> TRUE

ItemSelfTy(p, it) == TPath(FALSE, p, [i \in DOMAIN it.generics |-> TPath(FALSE, <<"?" \o it.generics[i]>>, <<>>)])
Sized(S, Root) == \A k \in DOMAIN AllItems(Root) :
                    SizedTy(S, Root, ItemSelfTy(AllItems(Root)[k].path, AllItems(Root)[k].it), <<>>)

\* the CompactAs derive is accepted only on a struct with exactly one non-skipped field
\* (derives are a sequence of strings in projected items and a set of strings in model items)
CompactAsName(S) == (IF S.compact_as.lead THEN "::" ELSE "") \o JoinWith(S.compact_as.segs, "::")
CompactAsShape(it) == it.kind = "struct" /\ Cardinality({i \in DOMAIN it.fields : ~it.fields[i].skip}) = 1
CompactAsOKSeq(S, Root) == \A k \in DOMAIN AllItems(Root) : LET it == AllItems(Root)[k].it IN
                             (S.has_compact_as /\ \E d \in DOMAIN it.derives : it.derives[d] = CompactAsName(S)) => CompactAsShape(it)
CompactAsOKSet(S, Root) == \A k \in DOMAIN AllItems(Root) : LET it == AllItems(Root)[k].it IN
                             (S.has_compact_as /\ CompactAsName(S) \in it.derives) => CompactAsShape(it)
RustWfFailed(S, fileProj) ==
  LET Root == RootOf(fileProj) IN
  (IF Len(fileProj.mods) = 1 /\ Len(fileProj.items) = 0 /\ Len(fileProj.others) = 0 /\ Root.name = S.root THEN {} ELSE {"SingleRootModule"})
  \cup (IF \A k \in DOMAIN AllMods(Root) : Len(AllMods(Root)[k].m.others) = 0 THEN {} ELSE {"OnlyModsUsesItems"})
  \cup (IF UniqueNames(Root) THEN {} ELSE {"UniqueNames"})
  \cup (IF UseChain(Root) THEN {} ELSE {"UseSuperRoot"})
  \cup (IF \A k \in DOMAIN AllItems(Root) : ItemOK(Root, AllItems(Root)[k].it) THEN {} ELSE {"ItemsResolveAndUseGenerics"})
  \cup (IF Sized(S, Root) THEN {} ELSE {"Sized"})
==================================================================================
