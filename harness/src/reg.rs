//! Conversion between the TLA+-friendly registry form (DESIGN.md A.1) and scale-info's serde form.
//! Nothing is interpreted here: it is a lossless re-encoding (no nulls, tagged definitions).

use scale_info::PortableRegistry;
use serde_json::{json, Value};

fn field_to_serde(f: &Value) -> Value {
    let mut o = serde_json::Map::new();
    let name = f["name"].as_str().unwrap_or("");
    if !name.is_empty() {
        o.insert("name".into(), json!(name));
    }
    o.insert("type".into(), f["ty"].clone());
    let tn = f["tn"].as_str().unwrap_or("");
    if !tn.is_empty() {
        o.insert("typeName".into(), json!(tn));
    }
    if let Some(d) = f.get("docs") {
        if d.as_array().map(|a| !a.is_empty()).unwrap_or(false) {
            o.insert("docs".into(), d.clone());
        }
    }
    Value::Object(o)
}

fn def_to_serde(d: &Value) -> Value {
    match d["k"].as_str().unwrap_or("") {
        "comp" => {
            let fields: Vec<Value> = d["fields"]
                .as_array()
                .map(|a| a.iter().map(field_to_serde).collect())
                .unwrap_or_default();
            json!({"composite": {"fields": fields}})
        }
        "var" => {
            let variants: Vec<Value> = d["variants"]
                .as_array()
                .map(|a| {
                    a.iter()
                        .map(|v| {
                            let fields: Vec<Value> = v["fields"]
                                .as_array()
                                .map(|a| a.iter().map(field_to_serde).collect())
                                .unwrap_or_default();
                            let mut o = serde_json::Map::new();
                            o.insert("name".into(), v["name"].clone());
                            o.insert("fields".into(), Value::Array(fields));
                            o.insert("index".into(), v["index"].clone());
                            if let Some(d) = v.get("docs") {
                                o.insert("docs".into(), d.clone());
                            }
                            Value::Object(o)
                        })
                        .collect()
                })
                .unwrap_or_default();
            json!({"variant": {"variants": variants}})
        }
        "seq" => json!({"sequence": {"type": d["of"]}}),
        "arr" => json!({"array": {"len": d["len"], "type": d["of"]}}),
        "tup" => json!({"tuple": d["elems"]}),
        "prim" => json!({"primitive": d["p"]}),
        "compact" => json!({"compact": {"type": d["of"]}}),
        "bits" => json!({"bitsequence": {"bit_store_type": d["store"], "bit_order_type": d["order"]}}),
        other => panic!("unknown def kind {other}"),
    }
}

/// A.1 registry (array of entries) -> PortableRegistry.
pub fn from_a1(reg: &Value) -> Result<PortableRegistry, String> {
    let entries = reg.as_array().ok_or("registry must be an array")?;
    let types: Vec<Value> = entries
        .iter()
        .map(|e| {
            let params: Vec<Value> = e["params"]
                .as_array()
                .map(|a| {
                    a.iter()
                        .map(|p| {
                            let ty = p["ty"].as_i64().unwrap_or(-1);
                            if ty < 0 {
                                json!({"name": p["name"]})
                            } else {
                                json!({"name": p["name"], "type": ty})
                            }
                        })
                        .collect()
                })
                .unwrap_or_default();
            let mut t = serde_json::Map::new();
            t.insert("path".into(), e["path"].clone());
            t.insert("params".into(), Value::Array(params));
            t.insert("def".into(), def_to_serde(&e["def"]));
            if let Some(d) = e.get("docs") {
                t.insert("docs".into(), d.clone());
            }
            json!({"id": e["id"], "type": Value::Object(t)})
        })
        .collect();
    serde_json::from_value::<PortableRegistry>(json!({ "types": types }))
        .map_err(|e| format!("registry deserialisation: {e}"))
}

fn field_from_serde(f: &Value) -> Value {
    json!({
        "name": f.get("name").and_then(|v| v.as_str()).unwrap_or(""),
        "ty": f["type"],
        "tn": f.get("typeName").and_then(|v| v.as_str()).unwrap_or(""),
        "docs": f.get("docs").cloned().unwrap_or(json!([])),
    })
}

fn arr(v: Option<&Value>) -> Vec<Value> {
    v.and_then(|v| v.as_array()).cloned().unwrap_or_default()
}

/// PortableRegistry -> A.1 registry.
pub fn to_a1(reg: &PortableRegistry) -> Value {
    let v = serde_json::to_value(reg).expect("registry serialises");
    let mut out = vec![];
    for t in arr(v.get("types")) {
        let ty = &t["type"];
        let def = &ty["def"];
        let d = if let Some(c) = def.get("composite") {
            json!({"k":"comp","fields": arr(c.get("fields")).iter().map(field_from_serde).collect::<Vec<_>>()})
        } else if let Some(c) = def.get("variant") {
            let vs: Vec<Value> = arr(c.get("variants"))
                .iter()
                .map(|v| {
                    json!({
                        "name": v["name"],
                        "index": v["index"],
                        "fields": arr(v.get("fields")).iter().map(field_from_serde).collect::<Vec<_>>(),
                        "docs": v.get("docs").cloned().unwrap_or(json!([])),
                    })
                })
                .collect();
            json!({"k":"var","variants": vs})
        } else if let Some(c) = def.get("sequence") {
            json!({"k":"seq","of": c["type"]})
        } else if let Some(c) = def.get("array") {
            json!({"k":"arr","of": c["type"], "len": c["len"]})
        } else if let Some(c) = def.get("tuple") {
            json!({"k":"tup","elems": c})
        } else if let Some(c) = def.get("primitive") {
            json!({"k":"prim","p": c})
        } else if let Some(c) = def.get("compact") {
            json!({"k":"compact","of": c["type"]})
        } else if let Some(c) = def.get("bitsequence") {
            json!({"k":"bits","store": c["bit_store_type"], "order": c["bit_order_type"]})
        } else {
            panic!("unknown def {def}")
        };
        let params: Vec<Value> = arr(ty.get("params"))
            .iter()
            .map(|p| json!({"name": p["name"], "ty": p.get("type").and_then(|x| x.as_i64()).unwrap_or(-1)}))
            .collect();
        out.push(json!({
            "id": t["id"],
            "path": ty.get("path").cloned().unwrap_or(json!([])),
            "params": params,
            "def": d,
            "docs": ty.get("docs").cloned().unwrap_or(json!([])),
        }));
    }
    Value::Array(out)
}
