//! `vh emit`: the compile-and-round-trip tier (T3).  Writes the modules the real generator emits for a batch of cases into one
//! Rust source file (one `mod case_<i>` each) together with calls that feed valid encodings - produced by scale-value's
//! encode_as_type from example values - to the generated type named by resolve_type_path.  Nothing is judged here.

use crate::{guarded, reg, settings};
use scale_typegen::typegen::ir::type_ir::CompositeIR;
use scale_typegen::typegen::ir::ToTokensWithSettings;
use scale_typegen::typegen::type_params::TypeParameters;
use scale_typegen::TypeGenerator;
use serde_json::{json, Value};
use std::io::{BufRead, BufReader, Write};

pub fn emit(cases_path: &str, out_rs: &str, out_manifest: &str, nseeds: u64) {
    let f = BufReader::new(std::fs::File::open(cases_path).expect("cases"));
    let mut rs = String::new();
    let mut man = std::fs::File::create(out_manifest).expect("manifest");
    let mut calls = vec![];
    let mut line_no = 1usize;
    for line in f.lines() {
        let line = line.unwrap();
        if line.trim().is_empty() {
            continue;
        }
        let case: Value = serde_json::from_str(&line).unwrap();
        let cid = case["case"].as_u64().unwrap_or(0);
        let run = &case["runs"][0];
        let Ok(types) = reg::from_a1(&run["reg"]) else { continue };
        let Ok(Ok(st)) = guarded(|| settings::build(&run["settings"])) else { continue };
        let gen = guarded(|| {
            let g = TypeGenerator::new(&types, &st);
            g.generate_types_mod().map(|m| m.to_token_stream(&st).to_string())
        });
        let Ok(Ok(module_src)) = gen else {
            writeln!(man, "{}", json!({"case": cid, "emitted": false, "checks": []})).unwrap();
            continue;
        };
        let mut body = String::new();
        let mut checks = vec![];
        for id in 0..types.types.len() as u32 {
            let p = guarded(|| {
                let g = TypeGenerator::new(&types, &st);
                g.resolve_type_path(id).map(|p| p.to_token_stream(&st).to_string())
            });
            let Ok(Ok(path_src)) = p else { continue };
            for seed in 0..nseeds {
                let v = guarded(|| scale_typegen_description::scale_value_from_seed(id, &types, seed));
                let Ok(Ok(v)) = v else { continue };
                let mut bytes = vec![];
                let e = guarded(|| scale_value::scale::encode_as_type(&v, id, &types, &mut bytes));
                if !matches!(e, Ok(Ok(()))) {
                    continue;
                }
                let k = checks.len();
                body.push_str(&format!(
                    "        crate::check::<{path_src}>({cid}, {id}, {k}, &{bytes:?});\n"
                ));
                checks.push(json!({"id": id, "k": k, "seed": seed, "bytes": bytes, "variant": -1}));
            }
        }
        // C18: standalone structs built from the field list of every variant of the types emitted without generic parameters; the
        // payload of an encoded enum value (everything after the index byte) must be an encoding of the struct of that variant
        let mut comps = String::new();
        for t in &types.types {
            let scale_info::TypeDef::Variant(var) = &t.ty.type_def else { continue };
            if t.ty.path.namespace().is_empty() || t.ty.type_params.iter().any(|p| p.ty.is_some()) {
                continue;
            }
            for seed in 0..(4 * nseeds) {
                let Ok(Ok(v)) = guarded(|| scale_typegen_description::scale_value_from_seed(t.id, &types, seed)) else { continue };
                let mut bytes = vec![];
                if !matches!(guarded(|| scale_value::scale::encode_as_type(&v, t.id, &types, &mut bytes)), Ok(Ok(()))) || bytes.is_empty() {
                    continue;
                }
                let Some(variant) = var.variants.iter().find(|x| x.index == bytes[0]) else { continue };
                let built = guarded(|| -> Result<String, scale_typegen::TypegenError> {
                    let g = TypeGenerator::new(&types, &st);
                    let mut tp = TypeParameters::from_scale_info(&[]);
                    let kind = g.create_composite_ir_kind(&variant.fields, &mut tp)?;
                    let ident = syn::parse_str::<proc_macro2::Ident>(&variant.name)?;
                    let comp = CompositeIR::new(ident, kind, Default::default());
                    Ok(g.upcast_composite(&comp).to_token_stream(&st).to_string())
                });
                let Ok(Ok(struct_src)) = built else { continue };
                let k = checks.len();
                comps.push_str(&format!("    pub mod comp_{k} {{ use super::types; {struct_src} }}\n"));
                body.push_str(&format!("        crate::check::<comp_{k}::{}>({cid}, {}, {k}, &{:?});\n", variant.name, t.id, &bytes[1..]));
                checks.push(json!({"id": t.id, "k": k, "seed": seed, "bytes": &bytes[1..], "variant": variant.index}));
            }
        }
        let start = line_no;
        let text = format!(
            "pub mod case_{cid} {{\n    {module_src}\n{comps}    pub fn run() {{\n{body}    }}\n}}\n"
        );
        line_no += text.matches('\n').count();
        rs.push_str(&text);
        calls.push(format!("    case_{cid}::run();\n"));
        writeln!(man, "{}", json!({"case": cid, "emitted": true, "first_line": start, "last_line": line_no - 1, "checks": checks})).unwrap();
    }
    rs.push_str("pub fn run_all() {\n");
    for c in calls {
        rs.push_str(&c);
    }
    rs.push_str("}\n");
    std::fs::write(out_rs, rs).expect("write cases.rs");
}
