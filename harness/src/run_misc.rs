//! Modes `builder` (settings builders over call histories), `validate` (settings validation and
//! similar-path query), and the real corpora (`corpus`, `polkadot`).

use crate::{guarded, project, reg, run_gen, settings};
use quote::ToTokens;
use scale_typegen::typegen::error::TypeSubstitutionErrorKind as K;
use scale_typegen::typegen::settings::substitutes::absolute_path;
use scale_typegen::typegen::validation::{
    similar_type_paths_in_registry, validate_substitutes_and_derives_against_registry,
};
use scale_typegen::TypeGeneratorSettings;
use serde_json::{json, Value};

fn nosp(t: &impl ToTokens) -> String {
    t.to_token_stream().to_string().replace(' ', "")
}

fn kind_name(k: &K) -> &'static str {
    match k {
        K::ExpectedAbsolutePath => "ExpectedAbsolutePath",
        K::EmptySubstitutePath => "EmptySubstitutePath",
        K::ExpectedAngleBracketGenerics => "ExpectedAngleBracketGenerics",
        K::InvalidFromType => "InvalidFromType",
        K::InvalidToType => "InvalidToType",
        K::NoMatchingFromType => "NoMatchingFromType",
        _ => "OtherKind",
    }
}

fn list(v: &Value) -> Vec<Value> {
    v.as_array().cloned().unwrap_or_default()
}

fn path_str(v: &Value) -> Result<syn::Path, String> {
    let s = if v.is_string() { v.as_str().unwrap().to_string() } else { settings::render_ty(v) };
    // parsed in type position so that parenthesised generics `Foo(A, B)` are accepted by the parser
    match syn::parse_str::<syn::Type>(&s) {
        Ok(syn::Type::Path(tp)) if tp.qself.is_none() => Ok(tp.path),
        Ok(_) => Err(format!("not a path: {s}")),
        Err(e) => Err(format!("unparsable path {s}: {e}")),
    }
}

/// Source / target of a substitute call: text form, or - for parenthesised generics `Foo(A, B)`, which syn's path parser does
/// not produce from text - the path is built programmatically from the structured form.
fn sub_path(call: &Value, which: &str) -> Result<syn::Path, String> {
    let form = call[format!("{which}Form")].as_str().unwrap_or("ok");
    if form == "paren" {
        let tree = &call[format!("{which}T")];
        let mut bare = tree.clone();
        bare["args"] = json!([]);
        let mut p = path_str(&bare)?;
        let inputs: syn::punctuated::Punctuated<syn::Type, syn::Token![,]> = list(&tree["args"])
            .iter()
            .map(|a| syn::parse_str::<syn::Type>(&settings::render_ty(a)).map_err(|e| e.to_string()))
            .collect::<Result<_, _>>()?;
        let last = p.segments.last_mut().ok_or("empty path")?;
        last.arguments = syn::PathArguments::Parenthesized(syn::ParenthesizedGenericArguments {
            paren_token: Default::default(),
            inputs,
            output: syn::ReturnType::Default,
        });
        Ok(p)
    } else {
        path_str(&call[which])
    }
}

/// Apply one builder call to the settings; returns the result kind.
fn apply_call(st: &mut TypeGeneratorSettings, call: &Value) -> Result<String, String> {
    let op = call["op"].as_str().unwrap_or("");
    match op {
        "all_d" => {
            let items = list(&call["items"]).iter().map(settings::parse_path).collect::<Result<Vec<_>, _>>()?;
            st.derives.add_derives_for_all(items);
            Ok("ok".into())
        }
        "all_a" => {
            let items = list(&call["items"]).iter().map(|a| settings::parse_attr(a.as_str().unwrap_or(""))).collect::<Result<Vec<_>, _>>()?;
            st.derives.add_attributes_for_all(items);
            Ok("ok".into())
        }
        "for_d" => {
            let tp = syn::TypePath { qself: None, path: settings::parse_path(&call["path"])? };
            let items = list(&call["items"]).iter().map(settings::parse_path).collect::<Result<Vec<_>, _>>()?;
            st.derives.add_derives_for(tp, items, call["recursive"].as_bool().unwrap_or(false));
            Ok("ok".into())
        }
        "for_a" => {
            let tp = syn::TypePath { qself: None, path: settings::parse_path(&call["path"])? };
            let items = list(&call["items"]).iter().map(|a| settings::parse_attr(a.as_str().unwrap_or(""))).collect::<Result<Vec<_>, _>>()?;
            st.derives.add_attributes_for(tp, items, call["recursive"].as_bool().unwrap_or(false));
            Ok("ok".into())
        }
        "insert" | "insert_if_not_exists" => {
            let src = sub_path(call, "src")?;
            let dst = sub_path(call, "dst")?;
            let dst = match absolute_path(dst) {
                Ok(d) => d,
                Err(e) => return Ok(kind_name(&e.kind).into()),
            };
            let r = if op == "insert" {
                st.substitutes.insert(src, dst)
            } else {
                st.substitutes.insert_if_not_exists(src, dst)
            };
            Ok(match r {
                Ok(()) => "ok".into(),
                Err(e) => kind_name(&e.kind).into(),
            })
        }
        "extend" => {
            let mut elems = vec![];
            for e in list(&call["elems"]) {
                let src = sub_path(&e, "src")?;
                let dst = sub_path(&e, "dst")?;
                match absolute_path(dst) {
                    Ok(d) => elems.push((src, d)),
                    Err(e) => return Ok(kind_name(&e.kind).into()),
                }
            }
            Ok(match st.substitutes.extend(elems) {
                Ok(()) => "ok".into(),
                Err(e) => kind_name(&e.kind).into(),
            })
        }
        other => Err(format!("unknown op {other}")),
    }
}

fn observe_state(st: &TypeGeneratorSettings, types: &scale_info::PortableRegistry, probes: &[Vec<String>]) -> Value {
    let mut subs: Vec<(String, Value)> = st
        .substitutes
        .iter()
        .map(|(k, v)| (k.join("::"), json!({"src": k, "dst": project::path(v.path())})))
        .collect();
    subs.sort_by(|a, b| a.0.cmp(&b.0));
    let contains: Vec<Value> = probes
        .iter()
        .map(|p| json!({"path": p, "has": st.substitutes.contains(p)}))
        .collect();
    let mut default_d: Vec<String> = st.derives.default_derives().derives().iter().map(nosp).collect();
    default_d.sort();
    let mut default_a: Vec<String> = st.derives.default_derives().attributes().iter().map(nosp).collect();
    default_a.sort();
    let mut listed: Vec<Value> = st
        .derives
        .derives_on_specific_types()
        .map(|(p, d)| {
            let mut ds: Vec<String> = d.derives().iter().map(nosp).collect();
            ds.sort();
            let mut at: Vec<String> = d.attributes().iter().map(nosp).collect();
            at.sort();
            json!({"path": nosp(p), "derives": ds, "attrs": at})
        })
        .collect();
    listed.sort_by_key(|v| v.to_string());
    let gen = run_gen::observe_gen(types, st);
    let paths = run_gen::observe_paths(types, st);
    json!({"subs": subs.into_iter().map(|x| x.1).collect::<Vec<_>>(), "contains": contains,
           "default_derives": default_d, "default_attrs": default_a, "listed": listed,
           "gen": {"res": gen["res"], "module": gen["module"], "parse_ok": gen["parse_ok"]}, "paths": paths})
}

pub fn builder_case(case: &Value) -> Value {
    let types = match reg::from_a1(&case["reg"]) {
        Ok(t) => t,
        Err(e) => return json!({"setup": e}),
    };
    let mut st = match guarded(|| settings::build(&case["settings"])) {
        Ok(Ok(s)) => s,
        Ok(Err(e)) => return json!({"setup": e}),
        Err(p) => return json!({"setup": format!("panic in settings: {p}")}),
    };
    let probes: Vec<Vec<String>> = list(&case["probes"])
        .iter()
        .map(|p| list(p).iter().map(|s| s.as_str().unwrap_or("").to_string()).collect())
        .collect();
    let mut steps = vec![];
    for call in list(&case["calls"]) {
        let r = guarded(|| {
            let mut copy = st.clone();
            let k = apply_call(&mut copy, &call);
            (k, copy)
        });
        match r {
            Ok((Ok(kind), copy)) => {
                st = copy;
                steps.push(json!({"res": kind, "state": observe_state(&st, &types, &probes)}));
            }
            Ok((Err(e), _)) => return json!({"setup": e}),
            Err(p) => {
                steps.push(json!({"res": "panic", "msg": p, "state": observe_state(&st, &types, &probes)}));
            }
        }
    }
    json!({"setup":"ok","steps": steps})
}

pub fn validate_case(case: &Value) -> Value {
    // (also used by mode `gen` for the determinism property)
    let types = match reg::from_a1(&case["reg"]) {
        Ok(t) => t,
        Err(e) => return json!({"setup": e}),
    };
    let st = match guarded(|| settings::build(&case["settings"])) {
        Ok(Ok(s)) => s,
        Ok(Err(e)) => return json!({"setup": e}),
        Err(p) => return json!({"setup": format!("panic in settings: {p}")}),
    };
    let mut runs = vec![];
    let reps = case["repeat"].as_u64().unwrap_or(1).max(1);
    for _ in 0..reps {
        // fresh settings each time: fresh hash seeds
        let st2 = match guarded(|| settings::build(&case["settings"])) {
            Ok(Ok(s)) => s,
            _ => st.clone(),
        };
        let r = guarded(|| validate_substitutes_and_derives_against_registry(&st2.substitutes, &st2.derives, &types));
        let o = match r {
            Err(p) => json!({"res":"panic","msg":p,"derives_unknown":[],"attrs_unknown":[],"subs_unknown":[]}),
            Ok(Ok(())) => json!({"res":"ok","derives_unknown":[],"attrs_unknown":[],"subs_unknown":[]}),
            Ok(Err(e)) => {
                let d: Vec<Value> = e.derives_for_unknown_types.iter().map(|(p, set)| {
                    let mut items: Vec<String> = set.iter().map(nosp).collect();
                    items.sort();
                    json!({"path": nosp(p), "items": items})
                }).collect();
                let a: Vec<Value> = e.attributes_for_unknown_types.iter().map(|(p, set)| {
                    let mut items: Vec<String> = set.iter().map(nosp).collect();
                    items.sort();
                    json!({"path": nosp(p), "items": items})
                }).collect();
                let s: Vec<Value> = e.substitutes_for_unknown_types.iter().map(|(p, q)| json!({"src": nosp(p), "dst": nosp(q)})).collect();
                json!({"res":"err","derives_unknown": d, "attrs_unknown": a, "subs_unknown": s})
            }
        };
        runs.push(o);
    }
    let mut similar = vec![];
    for q in list(&case["queries"]) {
        let r = guarded(|| -> Result<Vec<String>, String> {
            let p = path_str(&q)?;
            Ok(similar_type_paths_in_registry(&types, &p).iter().map(nosp).collect())
        });
        similar.push(match r {
            Ok(Ok(v)) => json!({"res":"ok","paths": v}),
            Ok(Err(e)) => json!({"res":"setup","msg": e, "paths": []}),
            Err(p) => json!({"res":"panic","msg": p, "paths": []}),
        });
    }
    json!({"setup":"ok","runs": runs, "similar": similar})
}

// ---------------------------------------------------------------------------------------------
// real corpora

mod corpus_types {
    #![allow(dead_code, unused)]
    use parity_scale_codec::Compact;
    use scale_info::TypeInfo;
    use std::borrow::Cow;
    use std::collections::{BTreeMap, BTreeSet, BinaryHeap, VecDeque};
    use std::marker::PhantomData;

    #[derive(TypeInfo)]
    pub struct Unit;
    #[derive(TypeInfo)]
    pub struct Prims { pub a: bool, pub b: char, pub c: String, pub d: u8, pub e: u16, pub f: u32, pub g: u64, pub h: u128, pub i: i8, pub j: i16, pub k: i32, pub l: i64, pub m: i128 }
    #[derive(TypeInfo)]
    pub struct Tup(pub u8, pub (u16, bool), pub [u32; 4], pub (), pub (u8,));
    #[derive(TypeInfo)]
    pub enum Color { Red, Green(u8), Blue { x: u16, y: Vec<u8> } }
    #[derive(TypeInfo)]
    pub enum Indexed { #[codec(index = 3)] A, #[codec(index = 7)] B(u8), C }
    #[derive(TypeInfo)]
    pub struct Gen<T> { pub a: T, pub b: Vec<T>, pub c: Option<T> }
    #[derive(TypeInfo)]
    pub struct Gen2<T, U> { pub a: T, pub b: U, pub c: (T, U), pub d: [U; 2] }
    #[derive(TypeInfo)]
    pub struct UsesGen { pub x: Gen<u8>, pub y: Gen<bool>, pub z: Gen2<u16, String>, pub w: Gen2<bool, u64> }
    #[derive(TypeInfo)]
    pub struct Phantom<T, U> { pub a: T, pub p: PhantomData<U> }
    #[derive(TypeInfo)]
    pub struct UnitPhantom<T>(pub PhantomData<T>);
    #[derive(TypeInfo)]
    pub struct UsesPhantom { pub a: Phantom<u8, u16>, pub b: UnitPhantom<u32> }
    #[derive(TypeInfo)]
    pub struct Boxed { pub a: Box<u32>, pub b: Box<Color>, pub c: Vec<Box<u8>> }
    #[derive(TypeInfo)]
    pub struct Rec { pub v: u8, pub next: Option<Box<Rec>> }
    #[derive(TypeInfo)]
    pub struct Tree { pub kids: Vec<Tree>, pub label: String }
    #[derive(TypeInfo)]
    pub enum Expr { Lit(u32), Add(Box<Expr>, Box<Expr>), Neg { e: Box<Expr> } }
    #[derive(TypeInfo)]
    pub struct MutA { pub b: Vec<MutB> }
    #[derive(TypeInfo)]
    pub struct MutB { pub a: Option<Box<MutA>>, pub n: u8 }
    #[derive(TypeInfo)]
    pub struct Compacts { #[codec(compact)] pub a: u8, #[codec(compact)] pub b: u32, pub c: Compact<u64>, pub d: Vec<Compact<u16>>, #[codec(compact)] pub e: u128 }
    #[derive(TypeInfo)]
    pub struct TupCompact(#[codec(compact)] pub u32, pub Compact<u8>);
    #[derive(TypeInfo)]
    pub struct Colls { pub a: BTreeMap<u8, String>, pub b: BTreeSet<u32>, pub c: VecDeque<u16>, pub d: BinaryHeap<u8>, pub e: Option<Result<u8, bool>> }
    #[derive(TypeInfo)]
    pub struct Cows<'a> { pub a: Cow<'a, str>, pub b: Cow<'a, [u8]>, pub c: Cow<'a, u32> }
    #[derive(TypeInfo)]
    pub struct Ranges { pub a: core::ops::Range<u8>, pub b: core::ops::RangeInclusive<u32> }
    #[derive(TypeInfo)]
    pub struct NonZeros { pub a: core::num::NonZeroU8, pub b: core::num::NonZeroI32, pub c: core::num::NonZeroU128 }
    #[derive(TypeInfo, parity_scale_codec::Encode, parity_scale_codec::Decode, parity_scale_codec::CompactAs)]
    pub struct Wrapper(pub u64);
    #[derive(TypeInfo)]
    pub struct WrapperNamed { pub inner: u16 }
    #[derive(TypeInfo)]
    pub struct SignedWrapper(pub i32);
    #[derive(TypeInfo)]
    pub struct UsesWrappers { pub a: Wrapper, pub b: WrapperNamed, pub c: SignedWrapper, #[codec(compact)] pub d: Wrapper }
    pub trait Cfg { type X; type Y; }
    pub struct C1; pub struct C2;
    impl Cfg for C1 { type X = u8; type Y = bool; }
    impl Cfg for C2 { type X = u16; type Y = bool; }
    #[derive(TypeInfo)]
    #[scale_info(skip_type_params(C))]
    pub struct Assoc<C: Cfg> { pub x: C::X, pub y: C::Y }
    #[derive(TypeInfo)]
    pub struct UsesAssoc { pub a: Assoc<C1>, pub b: Assoc<C2> }
    #[derive(TypeInfo)]
    pub struct Bits { pub a: bitvec::vec::BitVec<u8, bitvec::order::Lsb0>, pub b: bitvec::vec::BitVec<u32, bitvec::order::Msb0> }
    #[derive(TypeInfo)]
    pub struct Nested { pub a: Vec<Option<(u8, Gen<u16>)>>, pub b: [Option<Color>; 2], pub c: Gen<Gen<u8>> }
    #[derive(TypeInfo)]
    pub enum Empty {}
    #[derive(TypeInfo)]
    pub struct HasEmpty { pub e: Option<Empty>, pub n: u8 }
    #[derive(TypeInfo)]
    pub struct Docs {
        /// field doc
        pub a: u8,
    }
    /// An enum with docs.
    /// Second line.
    #[derive(TypeInfo)]
    pub enum DocEnum {
        /// variant doc
        A,
        /// another
        B(u8),
    }
    pub mod inner {
        use scale_info::TypeInfo;
        #[derive(TypeInfo)]
        pub struct Deep { pub x: super::Color, pub y: deeper::Deepest }
        pub mod deeper {
            use scale_info::TypeInfo;
            #[derive(TypeInfo)]
            pub struct Deepest(pub u8, pub Vec<super::super::Wrapper>);
        }
    }
    #[derive(TypeInfo)]
    pub struct GenRec<T> { pub v: T, pub next: Vec<GenRec<T>> }
    #[derive(TypeInfo)]
    pub struct UsesGenRec { pub a: GenRec<u8>, pub b: GenRec<bool> }
    #[derive(TypeInfo)]
    pub enum GenEnum<T, E> { Ok(T), Err(E), Both { t: T, e: E }, Neither }
    #[derive(TypeInfo)]
    pub struct UsesGenEnum { pub a: GenEnum<u8, String>, pub b: GenEnum<(), [u8; 2]> }
    #[derive(TypeInfo)]
    pub struct Dur { pub d: core::time::Duration }
}

fn corpus_entry<T: scale_info::TypeInfo + 'static>(name: &str) -> Value {
    let mut registry = scale_info::Registry::new();
    let id = registry.register_type(&scale_info::MetaType::new::<T>()).id;
    let pr: scale_info::PortableRegistry = registry.into();
    json!({"name": name, "root": id, "reg": reg::to_a1(&pr)})
}

pub fn corpus(out: &str) {
    use corpus_types::*;
    let mut v = vec![];
    macro_rules! add { ($($t:ty),* $(,)?) => { $( v.push(corpus_entry::<$t>(stringify!($t))); )* } }
    add!(Unit, Prims, Tup, Color, Indexed, UsesGen, UsesPhantom, Boxed, Rec, Tree, Expr, MutA, Compacts,
         TupCompact, Colls, Cows<'static>, Ranges, NonZeros, UsesWrappers, UsesAssoc, Bits, Nested, HasEmpty,
         Docs, DocEnum, inner::Deep, UsesGenRec, UsesGenEnum, Dur, Gen<u8>, Gen2<u8, u16>, Phantom<u8, bool>,
         UnitPhantom<u8>, Assoc<C1>, GenEnum<u8, bool>);
    // one registry holding everything (cross-type interactions, shared ids)
    {
        let mut registry = scale_info::Registry::new();
        macro_rules! reg_all { ($($t:ty),* $(,)?) => { $( registry.register_type(&scale_info::MetaType::new::<$t>()); )* } }
        reg_all!(Prims, Tup, Color, Indexed, UsesGen, UsesPhantom, Boxed, Rec, Tree, Expr, MutA, Compacts,
                 TupCompact, Colls, Cows<'static>, Ranges, NonZeros, UsesWrappers, UsesAssoc, Bits, Nested,
                 HasEmpty, Docs, DocEnum, inner::Deep, UsesGenRec, UsesGenEnum);
        let pr: scale_info::PortableRegistry = registry.into();
        v.push(json!({"name":"ALL","root":0,"reg": reg::to_a1(&pr)}));
    }
    let mut f = std::fs::File::create(out).expect("create corpus file");
    use std::io::Write;
    for e in v {
        writeln!(f, "{}", serde_json::to_string(&e).unwrap()).unwrap();
    }
}

pub fn polkadot(meta: &str, out: &str, seed: u64, n: usize, maxsize: usize) {
    use parity_scale_codec::Decode;
    let bytes = std::fs::read(meta).expect("metadata file");
    let metadata = frame_metadata::RuntimeMetadataPrefixed::decode(&mut &bytes[..]).expect("metadata decodes");
    let full = match metadata.1 {
        frame_metadata::RuntimeMetadata::V14(m) => m.types,
        frame_metadata::RuntimeMetadata::V15(m) => m.types,
        _ => panic!("metadata too old"),
    };
    let total = full.types.len() as u64;
    let mut s = seed.wrapping_mul(0x9E3779B97F4A7C15) | 1;
    let mut next = || {
        s ^= s << 13;
        s ^= s >> 7;
        s ^= s << 17;
        s
    };
    let mut f = std::fs::File::create(out).expect("create output");
    use std::io::Write;
    let mut made = 0;
    let mut tries = 0;
    while made < n && tries < n * 50 {
        tries += 1;
        let k = 1 + (next() % 3) as usize;
        let ids: Vec<u32> = (0..k).map(|_| (next() % total) as u32).collect();
        let mut copy = full.clone();
        let map = copy.retain(|id| ids.contains(&id));
        if copy.types.len() > maxsize {
            continue;
        }
        let m: Vec<Value> = map.iter().map(|(a, b)| json!([a, b])).collect();
        writeln!(f, "{}", serde_json::to_string(&json!({"name": format!("polkadot{:?}", ids), "roots": ids, "map": m, "reg": reg::to_a1(&copy)})).unwrap()).unwrap();
        made += 1;
    }
}
