//! Lossless projection of generated tokens into JSON (DESIGN.md A.3). Nothing is judged here.

use proc_macro2::TokenStream;
use quote::ToTokens;
use serde_json::{json, Value};

pub fn codes(s: &str) -> Value {
    Value::Array(s.chars().map(|c| json!(c as u32)).collect())
}

fn toks(t: &impl ToTokens) -> String {
    t.to_token_stream().to_string()
}

pub fn path(p: &syn::Path) -> Value {
    let n = p.segments.len();
    let mut segs = vec![];
    let mut segargs: Vec<Vec<Value>> = vec![];
    let mut inner = false;
    for (i, s) in p.segments.iter().enumerate() {
        segs.push(json!(s.ident.to_string()));
        let mut here = vec![];
        match &s.arguments {
            syn::PathArguments::None => {}
            syn::PathArguments::AngleBracketed(a) => {
                for g in &a.args {
                    match g {
                        syn::GenericArgument::Type(t) => here.push(ty(t)),
                        _ => return json!({"k":"other","text": toks(p)}),
                    }
                }
                if a.args.is_empty() {
                    return json!({"k":"other","text": toks(p)});
                }
                if i + 1 != n {
                    inner = true;
                }
            }
            _ => return json!({"k":"other","text": toks(p)}),
        }
        segargs.push(here);
    }
    if inner {
        // generic arguments on a segment that is not the last one, e.g. `::ext::Generic<A, B>::Output`
        return json!({"k":"qpath","lead": p.leading_colon.is_some(), "segs": segs, "segargs": segargs});
    }
    let args = segargs.pop().unwrap_or_default();
    json!({"k":"path","lead": p.leading_colon.is_some(), "segs": segs, "args": args})
}

pub fn ty(t: &syn::Type) -> Value {
    match t {
        syn::Type::Path(tp) if tp.qself.is_none() => path(&tp.path),
        syn::Type::Tuple(tt) => {
            json!({"k":"tup","elems": tt.elems.iter().map(ty).collect::<Vec<_>>()})
        }
        syn::Type::Array(a) => {
            let len = match &a.len {
                syn::Expr::Lit(syn::ExprLit { lit: syn::Lit::Int(i), .. }) => {
                    i.base10_parse::<i64>().unwrap_or(-1)
                }
                _ => -1,
            };
            json!({"k":"arr","of": ty(&a.elem), "len": len})
        }
        syn::Type::Paren(p) => ty(&p.elem),
        syn::Type::Group(g) => ty(&g.elem),
        other => json!({"k":"other","text": toks(other)}),
    }
}

struct Attrs {
    derives: Vec<Value>,
    derive_codes: Vec<Value>,
    n_derive_attrs: usize,
    docs: Vec<Value>,
    attrs: Vec<Value>,
    attr_codes: Vec<Value>,
    compact: bool,
    skip: bool,
    index: i64,
}

fn attrs(list: &[syn::Attribute]) -> Attrs {
    let mut a = Attrs {
        derives: vec![],
        derive_codes: vec![],
        n_derive_attrs: 0,
        docs: vec![],
        attrs: vec![],
        attr_codes: vec![],
        compact: false,
        skip: false,
        index: -1,
    };
    for at in list {
        if at.path().is_ident("derive") {
            a.n_derive_attrs += 1;
            if let Ok(paths) = at.parse_args_with(
                syn::punctuated::Punctuated::<syn::Path, syn::Token![,]>::parse_terminated,
            ) {
                for p in paths {
                    let s = toks(&p);
                    a.derives.push(json!(s.replace(' ', "")));
                    a.derive_codes.push(codes(&s));
                }
                continue;
            }
        }
        if at.path().is_ident("doc") {
            if let syn::Meta::NameValue(nv) = &at.meta {
                if let syn::Expr::Lit(syn::ExprLit { lit: syn::Lit::Str(s), .. }) = &nv.value {
                    a.docs.push(json!(s.value()));
                    continue;
                }
            }
        }
        if at.path().is_ident("codec") {
            let inner = match &at.meta {
                syn::Meta::List(l) => l.tokens.to_string(),
                _ => String::new(),
            };
            let inner = inner.replace(' ', "");
            if inner == "compact" {
                a.compact = true;
                continue;
            }
            if inner == "skip" {
                a.skip = true;
                continue;
            }
            if let Some(n) = inner.strip_prefix("index=") {
                if let Ok(n) = n.parse::<i64>() {
                    a.index = n;
                    continue;
                }
            }
        }
        let s = toks(at);
        a.attrs.push(json!(s.replace(' ', "")));
        a.attr_codes.push(codes(&s));
    }
    a
}

fn fields(f: &syn::Fields) -> (String, Vec<Value>) {
    let style = match f {
        syn::Fields::Named(_) => "named",
        syn::Fields::Unnamed(_) => "unnamed",
        syn::Fields::Unit => "unit",
    };
    let list = f
        .iter()
        .map(|fl| {
            let a = attrs(&fl.attrs);
            json!({
                "name": fl.ident.as_ref().map(|i| i.to_string()).unwrap_or_default(),
                "vis": matches!(fl.vis, syn::Visibility::Public(_)),
                "ty": ty(&fl.ty),
                "compact": a.compact,
                "skip": a.skip,
                "attrs": a.attrs,
            })
        })
        .collect();
    (style.to_string(), list)
}

fn generics(g: &syn::Generics) -> Vec<Value> {
    g.params
        .iter()
        .map(|p| match p {
            syn::GenericParam::Type(t) => json!(t.ident.to_string()),
            other => json!(format!("?{}", toks(other))),
        })
        .collect()
}

pub fn item_struct(s: &syn::ItemStruct) -> Value {
    let a = attrs(&s.attrs);
    let (style, fl) = fields(&s.fields);
    json!({
        "kind":"struct","name": s.ident.to_string(), "generics": generics(&s.generics),
        "vis": matches!(s.vis, syn::Visibility::Public(_)),
        "derives": a.derives, "derive_codes": a.derive_codes, "n_derive_attrs": a.n_derive_attrs,
        "attrs": a.attrs, "attr_codes": a.attr_codes,
        "docs": a.docs, "style": style, "fields": fl, "variants": [],
        "semi": s.semi_token.is_some(),
    })
}

pub fn item_enum(e: &syn::ItemEnum) -> Value {
    let a = attrs(&e.attrs);
    let variants: Vec<Value> = e
        .variants
        .iter()
        .map(|v| {
            let va = attrs(&v.attrs);
            let (style, fl) = fields(&v.fields);
            json!({"name": v.ident.to_string(), "index": va.index, "attrs": va.attrs, "docs": va.docs,
                   "style": style, "fields": fl, "disc": v.discriminant.is_some()})
        })
        .collect();
    json!({
        "kind":"enum","name": e.ident.to_string(), "generics": generics(&e.generics),
        "vis": matches!(e.vis, syn::Visibility::Public(_)),
        "derives": a.derives, "derive_codes": a.derive_codes, "n_derive_attrs": a.n_derive_attrs,
        "attrs": a.attrs, "attr_codes": a.attr_codes,
        "docs": a.docs, "style": "", "fields": [], "variants": variants, "semi": false,
    })
}

fn use_tree(t: &syn::UseTree, acc: &mut Vec<String>) -> bool {
    match t {
        syn::UseTree::Path(p) => {
            acc.push(p.ident.to_string());
            use_tree(&p.tree, acc)
        }
        syn::UseTree::Name(n) => {
            acc.push(n.ident.to_string());
            true
        }
        _ => false,
    }
}

fn items(list: &[syn::Item], name: &str, vis: bool) -> Value {
    let mut uses = vec![];
    let mut mods = vec![];
    let mut its = vec![];
    let mut others = vec![];
    for it in list {
        match it {
            syn::Item::Use(u) => {
                let mut acc = vec![];
                if use_tree(&u.tree, &mut acc) && u.leading_colon.is_none() {
                    uses.push(json!(acc));
                } else {
                    others.push(json!(toks(u)));
                }
            }
            syn::Item::Mod(m) => match &m.content {
                Some((_, content)) => mods.push(items(
                    content,
                    &m.ident.to_string(),
                    matches!(m.vis, syn::Visibility::Public(_)),
                )),
                None => others.push(json!(toks(m))),
            },
            syn::Item::Struct(s) => its.push(item_struct(s)),
            syn::Item::Enum(e) => its.push(item_enum(e)),
            other => others.push(json!(toks(other))),
        }
    }
    json!({"name": name, "vis": vis, "uses": uses, "mods": mods, "items": its, "others": others})
}

/// Parse a token stream as a file and project it. Returns (parse_ok, module-list-wrapper).
pub fn file(ts: TokenStream) -> (bool, Value) {
    match syn::parse2::<syn::File>(ts) {
        Ok(f) => (true, items(&f.items, "", true)),
        Err(_) => (false, json!({"name":"","vis":true,"uses":[],"mods":[],"items":[],"others":[]})),
    }
}

pub fn type_tokens(ts: TokenStream) -> Value {
    match syn::parse2::<syn::Type>(ts.clone()) {
        Ok(t) => ty(&t),
        Err(_) => json!({"k":"other","text": ts.to_string()}),
    }
}

// ---- expressions (rust value examples) ----

fn lit(l: &syn::Lit) -> Value {
    match l {
        syn::Lit::Int(i) => json!({"k":"lit","lk":"int","lit": i.base10_digits(), "suffix": i.suffix(), "neg": false}),
        syn::Lit::Bool(b) => json!({"k":"lit","lk":"bool","lit": b.value.to_string(), "suffix": "", "neg": false}),
        syn::Lit::Char(c) => json!({"k":"lit","lk":"char","lit": c.value().to_string(), "suffix": c.suffix(), "neg": false}),
        syn::Lit::Str(s) => json!({"k":"lit","lk":"str","lit": s.value(), "suffix": s.suffix(), "neg": false}),
        other => json!({"k":"lit","lk":"other","lit": toks(other), "suffix": "", "neg": false}),
    }
}

fn expr_path(p: &syn::Path) -> Value {
    let has_args = p.segments.iter().any(|s| !s.arguments.is_empty());
    json!({"lead": p.leading_colon.is_some(),
           "segs": p.segments.iter().map(|s| s.ident.to_string()).collect::<Vec<_>>(),
           "generic": has_args})
}

pub fn expr(e: &syn::Expr) -> Value {
    match e {
        syn::Expr::Lit(l) => lit(&l.lit),
        syn::Expr::Unary(u) if matches!(u.op, syn::UnOp::Neg(_)) => {
            let mut inner = expr(&u.expr);
            if inner["k"] == "lit" {
                inner["neg"] = json!(true);
                inner
            } else {
                json!({"k":"other","text": toks(e)})
            }
        }
        syn::Expr::Struct(s) => {
            let fl: Vec<Value> = s
                .fields
                .iter()
                .map(|f| {
                    let name = match &f.member {
                        syn::Member::Named(i) => i.to_string(),
                        syn::Member::Unnamed(i) => i.index.to_string(),
                    };
                    json!({"name": name, "e": expr(&f.expr)})
                })
                .collect();
            json!({"k":"struct","path": expr_path(&s.path), "fields": fl, "rest": s.rest.is_some() || s.dot2_token.is_some()})
        }
        syn::Expr::Call(c) => {
            let f = match &*c.func {
                syn::Expr::Path(p) if p.qself.is_none() => expr_path(&p.path),
                other => json!({"lead": false, "segs": [toks(other)], "generic": true}),
            };
            json!({"k":"call","path": f, "args": c.args.iter().map(expr).collect::<Vec<_>>()})
        }
        syn::Expr::Path(p) if p.qself.is_none() => json!({"k":"path","path": expr_path(&p.path)}),
        syn::Expr::Tuple(t) => json!({"k":"tuple","elems": t.elems.iter().map(expr).collect::<Vec<_>>()}),
        syn::Expr::Paren(p) => json!({"k":"paren","e": expr(&p.expr)}),
        syn::Expr::Group(g) => expr(&g.expr),
        syn::Expr::Array(a) => json!({"k":"array","elems": a.elems.iter().map(expr).collect::<Vec<_>>()}),
        syn::Expr::Repeat(r) => {
            let len = match &*r.len {
                syn::Expr::Lit(syn::ExprLit { lit: syn::Lit::Int(i), .. }) => {
                    i.base10_parse::<i64>().unwrap_or(-1)
                }
                _ => -1,
            };
            json!({"k":"repeat","e": expr(&r.expr), "len": len})
        }
        syn::Expr::Macro(m) => {
            let name = m.mac.path.segments.last().map(|s| s.ident.to_string()).unwrap_or_default();
            if name == "vec" {
                if let Ok(el) = m.mac.parse_body_with(
                    syn::punctuated::Punctuated::<syn::Expr, syn::Token![,]>::parse_terminated,
                ) {
                    return json!({"k":"vec","elems": el.iter().map(expr).collect::<Vec<_>>()});
                }
            }
            json!({"k":"other","text": toks(e)})
        }
        syn::Expr::MethodCall(m) => json!({"k":"mcall","recv": expr(&m.receiver), "method": m.method.to_string(),
                                           "args": m.args.iter().map(expr).collect::<Vec<_>>()}),
        other => json!({"k":"other","text": toks(other)}),
    }
}

pub fn expr_tokens(ts: TokenStream) -> (bool, Value) {
    match syn::parse2::<syn::Expr>(ts.clone()) {
        Ok(e) => (true, expr(&e)),
        Err(_) => (false, json!({"k":"other","text": ts.to_string()})),
    }
}
