//! vh - conformance harness. It builds inputs from case JSON, calls the real crates, projects the
//! outputs into JSON and forwards hook events. It never judges: all verdicts come from TLC.

mod project;
mod reg;
mod run_desc;
mod run_gen;
mod run_misc;
mod run_t3;
mod settings;

use serde_json::{json, Value};
use std::io::{BufRead, BufReader, Write};
use std::panic;
use std::process::{Command, Stdio};
use std::time::{Duration, Instant};

thread_local! {
    static LAST_PANIC: std::cell::RefCell<String> = const { std::cell::RefCell::new(String::new()) };
}

/// Run `f`, turning a panic into `Err(message)`. A panic of the code under test is data.
pub fn guarded<T>(f: impl FnOnce() -> T) -> Result<T, String> {
    let r = panic::catch_unwind(panic::AssertUnwindSafe(f));
    match r {
        Ok(v) => Ok(v),
        Err(_) => Err(LAST_PANIC.with(|p| p.borrow().clone())),
    }
}

pub fn drain_events() -> Vec<Value> {
    let mut evs: Vec<String> = scale_typegen::verif_hooks::take();
    evs.extend(scale_typegen_description::verif_hooks::take());
    evs.iter()
        .map(|s| serde_json::from_str::<Value>(s).unwrap_or(json!({"ev":"bad","raw": s})))
        .collect()
}

fn run_case(mode: &str, case: &Value) -> Value {
    match mode {
        "fmt" => run_desc::fmt_case(case),
        "gen" => run_gen::gen_case(case),
        "desc" => run_desc::desc_case(case),
        "sval" => run_desc::sval_case(case),
        "rval" => run_desc::rval_case(case),
        "builder" => run_misc::builder_case(case),
        "validate" => run_misc::validate_case(case),
        other => json!({"error": format!("unknown mode {other}")}),
    }
}

fn worker(mode: &str, inp: &str, out: &str, k: usize, jobs: usize, skip: usize) {
    panic::set_hook(Box::new(|info| {
        let msg = info.to_string();
        LAST_PANIC.with(|p| *p.borrow_mut() = msg);
    }));
    let f = BufReader::new(std::fs::File::open(inp).expect("open input"));
    let mut o = std::fs::OpenOptions::new()
        .create(true)
        .append(true)
        .open(out)
        .expect("open output");
    for (i, line) in f.lines().enumerate() {
        if i % jobs != k || i < skip {
            continue;
        }
        let line = line.expect("read line");
        if line.trim().is_empty() {
            continue;
        }
        let case: Value = serde_json::from_str(&line).expect("case json");
        // progress marker so the supervisor knows which case is in flight
        let mut obs = run_case(mode, &case);
        // make sure no events leak into the next case
        let _ = drain_events();
        obs["i"] = json!(i);
        obs["case"] = case["case"].clone();
        obs["crash"] = json!("");
        obs["input"] = case.clone();
        writeln!(o, "{}", serde_json::to_string(&obs).unwrap()).unwrap();
        o.flush().unwrap();
    }
}

fn count_lines(p: &str) -> usize {
    match std::fs::File::open(p) {
        Ok(f) => BufReader::new(f).lines().count(),
        Err(_) => 0,
    }
}

fn supervise(mode: &str, inp: &str, out: &str, jobs: usize, stall_s: u64) {
    let exe = std::env::current_exe().unwrap();
    let lines: Vec<String> = BufReader::new(std::fs::File::open(inp).expect("open input"))
        .lines()
        .map(|l| l.unwrap())
        .collect();
    let n = lines.len();
    let mut handles = vec![];
    for k in 0..jobs {
        let part = format!("{out}.part{k}");
        let _ = std::fs::remove_file(&part);
        let exe = exe.clone();
        let mode = mode.to_string();
        let inp = inp.to_string();
        let lines_k: Vec<usize> = (0..n).filter(|i| i % jobs == k).collect();
        let cases: Vec<Value> = lines_k
            .iter()
            .map(|i| {
                serde_json::from_str::<Value>(&lines[*i])
                    .map(|v| v["case"].clone())
                    .unwrap_or(Value::Null)
            })
            .collect();
        handles.push(std::thread::spawn(move || {
            let mut skip = 0usize;
            loop {
                let mut child = Command::new(&exe)
                    .args([
                        "worker",
                        &mode,
                        &inp,
                        &part,
                        &k.to_string(),
                        &jobs.to_string(),
                        &skip.to_string(),
                    ])
                    .stdout(Stdio::null())
                    .stderr(Stdio::null())
                    .spawn()
                    .expect("spawn worker");
                let mut last_len = count_lines(&part);
                let mut last_change = Instant::now();
                let status;
                let mut timed_out = false;
                loop {
                    if let Some(s) = child.try_wait().unwrap() {
                        status = Some(s);
                        break;
                    }
                    std::thread::sleep(Duration::from_millis(100));
                    let l = count_lines(&part);
                    if l != last_len {
                        last_len = l;
                        last_change = Instant::now();
                    } else if last_change.elapsed() > Duration::from_secs(stall_s) {
                        let _ = child.kill();
                        let _ = child.wait();
                        timed_out = true;
                        status = None;
                        break;
                    }
                }
                if !timed_out && status.map(|s| s.success()).unwrap_or(false) {
                    break;
                }
                // the case in flight is the next one not yet written
                let done = count_lines(&part);
                if done >= lines_k.len() {
                    break;
                }
                let i = lines_k[done];
                let why = if timed_out { "timeout" } else { "abort" };
                let mut o = std::fs::OpenOptions::new().create(true).append(true).open(&part).unwrap();
                writeln!(
                    o,
                    "{}",
                    serde_json::to_string(&json!({"i": i, "case": cases[done], "crash": why})).unwrap()
                )
                .unwrap();
                skip = i + 1;
                if done + 1 >= lines_k.len() {
                    break;
                }
            }
        }));
    }
    for h in handles {
        h.join().unwrap();
    }
    // merge in input order
    let mut all: Vec<(usize, String)> = vec![];
    for k in 0..jobs {
        let part = format!("{out}.part{k}");
        if let Ok(f) = std::fs::File::open(&part) {
            for l in BufReader::new(f).lines() {
                let l = l.unwrap();
                let v: Value = serde_json::from_str(&l).unwrap();
                all.push((v["i"].as_u64().unwrap() as usize, l));
            }
        }
        let _ = std::fs::remove_file(&part);
    }
    all.sort_by_key(|x| x.0);
    let mut o = std::fs::File::create(out).unwrap();
    for (_, l) in all {
        writeln!(o, "{l}").unwrap();
    }
}

fn main() {
    let args: Vec<String> = std::env::args().collect();
    if args.len() >= 2 && args[1] == "once" {
        panic::set_hook(Box::new(|info| {
            let msg = info.to_string();
            LAST_PANIC.with(|p| *p.borrow_mut() = msg);
        }));
    }
    if args.len() < 2 {
        eprintln!("usage: vh run <mode> <in> <out> [jobs] [stall_s] | vh worker ... | vh corpus <out> | vh polkadot <metadata> <out> <seed> <n> <maxsize>");
        std::process::exit(2);
    }
    match args[1].as_str() {
        "run" => {
            let jobs = args.get(5).and_then(|s| s.parse().ok()).unwrap_or(8);
            let stall = args.get(6).and_then(|s| s.parse().ok()).unwrap_or(30);
            supervise(&args[2], &args[3], &args[4], jobs, stall);
        }
        "worker" => {
            let k = args[5].parse().unwrap();
            let jobs = args[6].parse().unwrap();
            let skip = args[7].parse().unwrap();
            // deep recursion in the code under test should surface as stack overflow late
            let mode = args[2].clone();
            let inp = args[3].clone();
            let out = args[4].clone();
            let h = std::thread::Builder::new()
                .stack_size(64 << 20)
                .spawn(move || worker(&mode, &inp, &out, k, jobs, skip))
                .unwrap();
            if h.join().is_err() {
                std::process::exit(3);
            }
        }
        "once" => run_gen::once_main(),
        "emit" => {
            panic::set_hook(Box::new(|info| {
                let msg = info.to_string();
                LAST_PANIC.with(|p| *p.borrow_mut() = msg);
            }));
            run_t3::emit(&args[2], &args[3], &args[4], args[5].parse().unwrap_or(2))
        }
        "corpus" => run_misc::corpus(&args[2]),
        "polkadot" => run_misc::polkadot(
            &args[2],
            &args[3],
            args[4].parse().unwrap(),
            args[5].parse().unwrap(),
            args[6].parse().unwrap(),
        ),
        other => {
            eprintln!("unknown subcommand {other}");
            std::process::exit(2);
        }
    }
}
