//! Modes of the companion crate: `fmt` (formatter), `desc` (descriptions), `sval` (scale-value
//! examples), `rval` (Rust expression examples).

use crate::{drain_events, guarded, project, reg, settings};
use scale_info::PortableRegistry;
use scale_value::{Composite, Primitive, Value as SValue, ValueDef};
use serde_json::{json, Value};

fn codes_to_string(v: &Value) -> String {
    v.as_array()
        .map(|a| {
            a.iter()
                .filter_map(|c| c.as_u64().and_then(|c| char::from_u32(c as u32)))
                .collect()
        })
        .unwrap_or_default()
}

pub fn fmt_case(case: &Value) -> Value {
    let s = codes_to_string(&case["s"]);
    let _ = drain_events();
    let r = guarded(|| scale_typegen_description::format_type_description(&s));
    let events = drain_events();
    match r {
        Ok(out) => json!({"res":"ok","in": project::codes(&s), "out": project::codes(&out), "events": events}),
        Err(p) => json!({"res":"panic","in": project::codes(&s), "out": [], "events": events, "msg": p}),
    }
}

/// Lossless (modulo whitespace) lexing: identifier/number runs and single punctuation characters.
pub fn lex(s: &str) -> Vec<Value> {
    let mut out = vec![];
    let mut cur = String::new();
    for c in s.chars() {
        if c.is_alphanumeric() || c == '_' {
            cur.push(c);
        } else {
            if !cur.is_empty() {
                out.push(json!(cur));
                cur = String::new();
            }
            if !c.is_whitespace() {
                out.push(json!(c.to_string()));
            }
        }
    }
    if !cur.is_empty() {
        out.push(json!(cur));
    }
    out
}

fn ids_of(case: &Value, types: &PortableRegistry) -> Vec<u32> {
    match case["ids"].as_array() {
        Some(a) if !a.is_empty() => a.iter().filter_map(|x| x.as_u64().map(|v| v as u32)).collect(),
        _ => (0..types.types.len() as u32).collect(),
    }
}

pub fn desc_case(case: &Value) -> Value {
    let types = match reg::from_a1(&case["reg"]) {
        Ok(t) => t,
        Err(e) => return json!({"setup": e}),
    };
    let mut out = vec![];
    for id in ids_of(case, &types) {
        let _ = drain_events();
        let r = guarded(|| scale_typegen_description::type_description(id, &types, false));
        let events = drain_events();
        let rf = guarded(|| scale_typegen_description::type_description(id, &types, true));
        let _ = drain_events();
        let mut o = json!({"id": id, "events": events, "res": "", "text": "", "toks": [], "codes": [], "fres": "", "fcodes": [], "msg": ""});
        match r {
            Ok(Ok(s)) => {
                o["res"] = json!("ok");
                o["toks"] = json!(lex(&s));
                o["codes"] = project::codes(&s);
                o["text"] = json!(s);
            }
            Ok(Err(e)) => {
                o["res"] = json!("err");
                o["msg"] = json!(e.to_string());
            }
            Err(p) => {
                o["res"] = json!("panic");
                o["msg"] = json!(p);
            }
        }
        match rf {
            Ok(Ok(s)) => {
                o["fres"] = json!("ok");
                o["fcodes"] = project::codes(&s);
            }
            Ok(Err(_)) => o["fres"] = json!("err"),
            Err(_) => o["fres"] = json!("panic"),
        }
        out.push(o);
    }
    json!({"setup":"ok","descs": out})
}

fn prim(p: &Primitive) -> Value {
    match p {
        Primitive::Bool(b) => json!({"k":"prim","p":"bool","v": b.to_string()}),
        Primitive::Char(c) => json!({"k":"prim","p":"char","v": c.to_string()}),
        Primitive::String(s) => json!({"k":"prim","p":"str","v": s}),
        Primitive::U128(n) => json!({"k":"prim","p":"u128","v": n.to_string()}),
        Primitive::I128(n) => json!({"k":"prim","p":"i128","v": n.to_string()}),
        Primitive::U256(b) => json!({"k":"prim","p":"u256","v": b.iter().map(|x| format!("{x:02x}")).collect::<String>()}),
        Primitive::I256(b) => json!({"k":"prim","p":"i256","v": b.iter().map(|x| format!("{x:02x}")).collect::<String>()}),
    }
}

fn composite<T>(c: &Composite<T>) -> Value {
    match c {
        Composite::Named(f) => json!({"k":"named","fields": f.iter().map(|(n, v)| json!({"name": n, "v": value(v)})).collect::<Vec<_>>()}),
        Composite::Unnamed(f) => json!({"k":"unnamed","vals": f.iter().map(value).collect::<Vec<_>>()}),
    }
}

pub fn value<T>(v: &SValue<T>) -> Value {
    match &v.value {
        ValueDef::Composite(c) => composite(c),
        ValueDef::Variant(var) => json!({"k":"variant","name": var.name, "vals": composite(&var.values)}),
        ValueDef::Primitive(p) => prim(p),
        ValueDef::BitSequence(b) => json!({"k":"bits","v": b.iter().collect::<Vec<bool>>()}),
    }
}

pub fn sval_case(case: &Value) -> Value {
    let types = match reg::from_a1(&case["reg"]) {
        Ok(t) => t,
        Err(e) => return json!({"setup": e}),
    };
    let seeds: Vec<u64> = case["seeds"]
        .as_array()
        .map(|a| a.iter().filter_map(|x| x.as_u64()).collect())
        .unwrap_or_else(|| vec![0]);
    let mut out = vec![];
    for id in ids_of(case, &types) {
        for &seed in &seeds {
            let _ = drain_events();
            let r = guarded(|| scale_typegen_description::scale_value_from_seed(id, &types, seed));
            let events = drain_events();
            let r2 = guarded(|| scale_typegen_description::scale_value_from_seed(id, &types, seed));
            let _ = drain_events();
            let none = json!({"k":"none"});
            let mut o = json!({"id": id, "seed": seed, "events": events, "res":"", "v": none, "again": "",
                               "enc":"", "bytes": [], "dec":"", "rest": -1, "dv": none, "eq": false, "msg": ""});
            o["again"] = json!(match (&r, &r2) {
                (Ok(Ok(a)), Ok(Ok(b))) => if a == b { "same" } else { "differs" },
                (Ok(Err(_)), Ok(Err(_))) => "same",
                (Err(_), Err(_)) => "same",
                _ => "differs",
            });
            match r {
                Ok(Ok(v)) => {
                    o["res"] = json!("value");
                    o["v"] = value(&v);
                    let mut bytes = vec![];
                    let e = guarded(|| scale_value::scale::encode_as_type(&v, id, &types, &mut bytes));
                    match e {
                        Ok(Ok(())) => {
                            o["enc"] = json!("ok");
                            o["bytes"] = json!(bytes);
                            let mut cur = &bytes[..];
                            let d = guarded(|| scale_value::scale::decode_as_type(&mut cur, id, &types));
                            match d {
                                Ok(Ok(dv)) => {
                                    o["dec"] = json!("ok");
                                    o["rest"] = json!(cur.len());
                                    let dv = dv.remove_context();
                                    o["eq"] = json!(dv == v);
                                    o["dv"] = value(&dv);
                                }
                                Ok(Err(e)) => {
                                    o["dec"] = json!("err");
                                    o["msg"] = json!(e.to_string());
                                }
                                Err(p) => {
                                    o["dec"] = json!("panic");
                                    o["msg"] = json!(p);
                                }
                            }
                        }
                        Ok(Err(e)) => {
                            o["enc"] = json!("err");
                            o["msg"] = json!(e.to_string());
                        }
                        Err(p) => {
                            o["enc"] = json!("panic");
                            o["msg"] = json!(p);
                        }
                    }
                }
                Ok(Err(e)) => {
                    o["res"] = json!("err");
                    o["msg"] = json!(e.to_string());
                }
                Err(p) => {
                    o["res"] = json!("panic");
                    o["msg"] = json!(p);
                }
            }
            out.push(o);
        }
    }
    json!({"setup":"ok","vals": out})
}

/// ty_middleware from the case: a type whose last path segment is listed is replaced by the given expression text
fn ty_mw(case: &Value) -> Option<scale_typegen_description::type_example::rust_value::TyMiddleware> {
    let list: Vec<(String, String)> = case["mw"]
        .as_array()
        .map(|a| a.iter().map(|x| (x["ident"].as_str().unwrap_or("").to_string(), x["expr"].as_str().unwrap_or("").to_string())).collect())
        .unwrap_or_default();
    if list.is_empty() {
        return None;
    }
    Some(Box::new(move |ty, _tr| {
        let ident = ty.path.ident()?;
        let (_, e) = list.iter().find(|(i, _)| *i == ident)?;
        Some(e.parse::<proc_macro2::TokenStream>().map_err(|e| anyhow::anyhow!("{e}")))
    }))
}

/// ty_path_middleware from the case: "droproot" removes the leading `<root> ::` of a generated path
fn path_mw(case: &Value, root: &str) -> Option<scale_typegen_description::type_example::rust_value::TyPathMiddleware> {
    if case["pmw"].as_str() != Some("droproot") {
        return None;
    }
    let root = root.to_string();
    Some(Box::new(move |ts: proc_macro2::TokenStream| {
        let toks: Vec<proc_macro2::TokenTree> = ts.clone().into_iter().collect();
        match toks.first() {
            Some(proc_macro2::TokenTree::Ident(i)) if *i == root && toks.len() > 3 => toks.into_iter().skip(3).collect(),
            _ => ts,
        }
    }))
}

pub fn rval_case(case: &Value) -> Value {
    let types = match reg::from_a1(&case["reg"]) {
        Ok(t) => t,
        Err(e) => return json!({"setup": e}),
    };
    let st = match guarded(|| settings::build(&case["settings"])) {
        Ok(Ok(s)) => s,
        Ok(Err(e)) => return json!({"setup": e}),
        Err(p) => return json!({"setup": format!("panic in settings: {p}")}),
    };
    let seeds: Vec<u64> = case["seeds"]
        .as_array()
        .map(|a| a.iter().filter_map(|x| x.as_u64()).collect())
        .unwrap_or_else(|| vec![0]);
    let gen = crate::run_gen::observe_gen(&types, &st);
    let paths = crate::run_gen::observe_paths(&types, &st);
    let root = case["settings"]["root"].as_str().unwrap_or("types").to_string();
    let mut out = vec![];
    for id in ids_of(case, &types) {
        for &seed in &seeds {
            let _ = drain_events();
            let r = guarded(|| {
                scale_typegen_description::rust_value_from_seed(id, &types, &st, seed, ty_mw(case), path_mw(case, &root))
            });
            let events = drain_events();
            let r2 = guarded(|| {
                scale_typegen_description::rust_value_from_seed(id, &types, &st, seed, ty_mw(case), path_mw(case, &root))
            });
            let _ = drain_events();
            let mut o = json!({"id": id, "seed": seed, "events": events, "res":"", "parse_ok": false,
                               "e": {"k":"none"}, "again":"", "msg": ""});
            o["again"] = json!(match (&r, &r2) {
                (Ok(Ok(a)), Ok(Ok(b))) => if a.to_string() == b.to_string() { "same" } else { "differs" },
                (Ok(Err(_)), Ok(Err(_))) => "same",
                (Err(_), Err(_)) => "same",
                _ => "differs",
            });
            match r {
                Ok(Ok(ts)) => {
                    o["res"] = json!("expr");
                    o["msg"] = json!(ts.to_string());
                    let (ok, e) = project::expr_tokens(ts);
                    o["parse_ok"] = json!(ok);
                    o["e"] = e;
                }
                Ok(Err(e)) => {
                    o["res"] = json!("err");
                    o["msg"] = json!(e.to_string());
                }
                Err(p) => {
                    o["res"] = json!("panic");
                    o["msg"] = json!(p);
                }
            }
            out.push(o);
        }
    }
    json!({"setup":"ok","gen": gen, "paths": paths, "exprs": out})
}
