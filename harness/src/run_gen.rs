//! Mode `gen`: every observation of the type generator and the de-duplication utility for one case.
//! case = {"case":n, "runs":[{"reg":A.1, "settings":A.2, "dedup":bool, "composites":bool,
//!         "teq":[[a,b]..], "repeat":k, "retain":[ids]}]}

use crate::{drain_events, guarded, project, reg, settings};
use quote::ToTokens;
use scale_info::PortableRegistry;
use scale_typegen::typegen::ir::type_ir::{CompositeIR, TypeIR};
use scale_typegen::typegen::ir::ToTokensWithSettings;
use scale_typegen::typegen::type_params::TypeParameters;
use scale_typegen::{TypeGenerator, TypeGeneratorSettings, TypegenError};
use serde_json::{json, Value};

pub fn err_record(e: &TypegenError) -> Value {
    let mut r = json!({"res":"", "id": -1, "given": -1, "expected": -1, "msg": e.to_string()});
    match e {
        TypegenError::SynParseError(_) => r["res"] = json!("SynParseError"),
        TypegenError::InvalidFields(_) => r["res"] = json!("InvalidFields"),
        TypegenError::InvalidType(_) => r["res"] = json!("InvalidType"),
        TypegenError::CompactPathNone => r["res"] = json!("CompactPathNone"),
        TypegenError::DecodedBitsPathNone => r["res"] = json!("DecodedBitsPathNone"),
        TypegenError::TypeNotFound(id) => {
            r["res"] = json!("TypeNotFound");
            r["id"] = json!(*id);
        }
        TypegenError::InvalidSubstitute(_) => r["res"] = json!("InvalidSubstitute"),
        TypegenError::SettingsValidation(_) => r["res"] = json!("SettingsValidation"),
        TypegenError::DuplicateTypePath(p) => {
            r["res"] = json!("DuplicateTypePath");
            r["msg"] = json!(p);
        }
        TypegenError::RegistryTypeIdsInvalid { given_ty_id, expected_ty_id, .. } => {
            r["res"] = json!("RegistryTypeIdsInvalid");
            r["given"] = json!(*given_ty_id);
            r["expected"] = json!(*expected_ty_id);
            r["msg"] = json!("");
        }
        _ => r["res"] = json!("OtherError"),
    }
    r
}

fn panic_record(msg: String) -> Value {
    json!({"res":"panic", "id": -1, "given": -1, "expected": -1, "msg": msg})
}

fn ok_record() -> Value {
    json!({"res":"ok", "id": -1, "given": -1, "expected": -1, "msg": ""})
}

fn fp(s: &str) -> String {
    // FNV-1a 64 fingerprint of the token string (equality only)
    let mut h: u64 = 0xcbf29ce484222325;
    for b in s.bytes() {
        h ^= b as u64;
        h = h.wrapping_mul(0x100000001b3);
    }
    format!("{h:016x}")
}

fn empty_module() -> Value {
    json!({"name":"","vis":true,"uses":[],"mods":[],"items":[],"others":[]})
}

/// generate_types_mod + tokens + projection + hook events
pub fn observe_gen(types: &PortableRegistry, st: &TypeGeneratorSettings) -> Value {
    let _ = drain_events();
    let r = guarded(|| {
        let g = TypeGenerator::new(types, st);
        g.generate_types_mod().map(|m| m.to_token_stream(st))
    });
    let events = drain_events();
    let mut o = match &r {
        Err(p) => panic_record(p.clone()),
        Ok(Err(e)) => err_record(e),
        Ok(Ok(_)) => ok_record(),
    };
    o["events"] = json!(events);
    o["parse_ok"] = json!(false);
    o["module"] = empty_module();
    o["fp"] = json!("");
    if let Ok(Ok(ts)) = r {
        o["fp"] = json!(fp(&ts.to_string()));
        let (ok, m) = project::file(ts);
        o["parse_ok"] = json!(ok);
        o["module"] = m;
    }
    o
}

pub fn observe_paths(types: &PortableRegistry, st: &TypeGeneratorSettings) -> Value {
    let ids: Vec<u32> = types.types.iter().map(|t| t.id).collect();
    let n = types.types.len() as u32;
    // resolve by position index as well as by listed id (they coincide on consistent registries)
    let _ = ids;
    let mut out = vec![];
    for id in 0..n {
        let r = guarded(|| {
            let g = TypeGenerator::new(types, st);
            g.resolve_type_path(id).map(|p| {
                // the public accessors of TypePath, observed next to its tokens
                let vec_of = p.vec_type_param().map(|e| e.to_token_stream(st));
                (p.to_token_stream(st), p.is_compact(), p.is_string(), p.is_uint_up_to_u128(), vec_of)
            })
        });
        let mut o = match &r {
            Err(p) => panic_record(p.clone()),
            Ok(Err(e)) => err_record(e),
            Ok(Ok(_)) => ok_record(),
        };
        o["ty"] = json!({"k":"other","text":""});
        o["is_compact"] = json!(false);
        o["is_string"] = json!(false);
        o["is_uint"] = json!(false);
        o["vec_of"] = json!({"k":"none"});
        if let Ok(Ok((ts, c, s, u, v))) = r {
            o["ty"] = project::type_tokens(ts);
            o["is_compact"] = json!(c);
            o["is_string"] = json!(s);
            o["is_uint"] = json!(u);
            if let Some(v) = v {
                o["vec_of"] = project::type_tokens(v);
            }
        }
        out.push(o);
    }
    let _ = drain_events();
    Value::Array(out)
}

fn observe_dedup(types: &PortableRegistry) -> (Value, Option<PortableRegistry>) {
    let _ = drain_events();
    let mut copy = types.clone();
    let r = guarded(|| {
        let res = scale_typegen::utils::ensure_unique_type_paths(&mut copy);
        (res, copy)
    });
    let events = drain_events();
    match r {
        Err(p) => {
            let mut o = panic_record(p);
            o["events"] = json!(events);
            o["reg"] = json!([]);
            (o, None)
        }
        Ok((Err(e), c)) => {
            let mut o = err_record(&e);
            o["events"] = json!(events);
            o["reg"] = reg::to_a1(&c);
            (o, Some(c))
        }
        Ok((Ok(()), c)) => {
            let mut o = ok_record();
            o["events"] = json!(events);
            o["reg"] = reg::to_a1(&c);
            (o, Some(c))
        }
    }
}

fn composite_items(types: &PortableRegistry, st: &TypeGeneratorSettings) -> Value {
    let mut out = vec![];
    for t in &types.types {
        if t.ty.path.namespace().is_empty() {
            continue;
        }
        let mut lists: Vec<(i64, String, &[scale_info::Field<scale_info::form::PortableForm>], &[String])> = vec![];
        match &t.ty.type_def {
            scale_info::TypeDef::Composite(c) => {
                let name = t.ty.path.ident().unwrap_or_default();
                lists.push((-1, name, &c.fields, &t.ty.docs));
            }
            scale_info::TypeDef::Variant(v) => {
                for (i, var) in v.variants.iter().enumerate() {
                    lists.push((i as i64, var.name.clone(), &var.fields, &var.docs));
                }
            }
            _ => continue,
        }
        for (vi, name, fields, docs) in lists {
            let r = guarded(|| -> Result<proc_macro2::TokenStream, TypegenError> {
                let g = TypeGenerator::new(types, st);
                let mut tp = TypeParameters::from_scale_info(&[]);
                let kind = g.create_composite_ir_kind(fields, &mut tp)?;
                let ident = syn::parse_str::<proc_macro2::Ident>(&name)?;
                let comp = CompositeIR::new(ident, kind, g.docs_from_scale_info(docs));
                let tir: TypeIR = g.upcast_composite(&comp);
                Ok(tir.to_token_stream(st))
            });
            let mut o = match &r {
                Err(p) => panic_record(p.clone()),
                Ok(Err(e)) => err_record(e),
                Ok(Ok(_)) => ok_record(),
            };
            o["id"] = json!(t.id);
            o["variant"] = json!(vi);
            o["parse_ok"] = json!(false);
            o["item"] = json!({"kind":"none"});
            if let Ok(Ok(ts)) = r {
                if let Ok(s) = syn::parse2::<syn::ItemStruct>(ts) {
                    o["parse_ok"] = json!(true);
                    o["item"] = project::item_struct(&s);
                }
            }
            out.push(o);
        }
    }
    let _ = drain_events();
    Value::Array(out)
}

fn observe_run(run: &Value) -> Value {
    let mut o = json!({"setup":"ok"});
    let types = match reg::from_a1(&run["reg"]) {
        Ok(t) => t,
        Err(e) => return json!({"setup": e}),
    };
    let st = match guarded(|| settings::build(&run["settings"])) {
        Ok(Ok(s)) => s,
        Ok(Err(e)) => return json!({"setup": e}),
        Err(p) => return json!({"setup": format!("panic in settings: {p}")}),
    };
    o["gen"] = observe_gen(&types, &st);
    o["paths"] = observe_paths(&types, &st);
    // repeated generation with freshly built settings (fresh hash seeds)
    let rep = run["repeat"].as_u64().unwrap_or(0);
    let mut fps = vec![];
    for _ in 0..rep {
        if let Ok(Ok(st2)) = guarded(|| settings::build(&run["settings"])) {
            let g = observe_gen(&types, &st2);
            fps.push(json!({"res": g["res"], "fp": g["fp"], "msg": g["msg"]}));
        }
    }
    o["repeat"] = json!(fps);
    // generation in fresh processes (fresh hash seeds per process)
    let fresh = run["fresh"].as_u64().unwrap_or(0);
    let mut fr = vec![];
    for _ in 0..fresh {
        fr.push(crate::run_gen::once_in_fresh_process(run));
    }
    o["fresh"] = json!(fr);
    // settings validation, repeated with freshly built settings; compared as sets by the judge
    let vrep = run["validate"].as_u64().unwrap_or(0);
    if vrep > 0 {
        let vcase = json!({"reg": run["reg"], "settings": run["settings"], "queries": [], "repeat": vrep});
        o["validation"] = crate::run_misc::validate_case(&vcase)["runs"].clone();
    } else {
        o["validation"] = json!([]);
    }
    if let Some(pairs) = run["teq"].as_array() {
        let mut res = vec![];
        for p in pairs {
            let a = p[0].as_u64().unwrap_or(0) as u32;
            let b = p[1].as_u64().unwrap_or(0) as u32;
            let r = guarded(|| scale_typegen::verif_hooks::types_equal(a, b, &types));
            res.push(json!({"a": a, "b": b, "res": match r { Ok(true) => "true", Ok(false) => "false", Err(_) => "panic" }}));
        }
        o["teq"] = json!(res);
    } else {
        o["teq"] = json!([]);
    }
    if run["composites"].as_bool().unwrap_or(false) {
        o["composites"] = composite_items(&types, &st);
    } else {
        o["composites"] = json!([]);
    }
    if run["dedup"].as_bool().unwrap_or(false) {
        let (d, r2) = observe_dedup(&types);
        o["dedup"] = d;
        if let Some(r2) = r2 {
            o["gen2"] = observe_gen(&r2, &st);
            o["paths2"] = observe_paths(&r2, &st);
            let (d2, _) = observe_dedup(&r2);
            o["dedup2"] = d2;
        } else {
            o["gen2"] = json!({"res":"none","events":[],"parse_ok":false,"module":empty_module(),"fp":"","id":-1,"given":-1,"expected":-1,"msg":""});
            o["paths2"] = json!([]);
            o["dedup2"] = json!({"res":"none","events":[],"reg":[],"id":-1,"given":-1,"expected":-1,"msg":""});
        }
    }
    if let Some(ids) = run["retain"].as_array() {
        // scale-info's own retain, then regenerate; the id map is reported
        let keep: Vec<u32> = ids.iter().filter_map(|x| x.as_u64().map(|v| v as u32)).collect();
        let mut copy = types.clone();
        let r = guarded(|| {
            let map = copy.retain(|id| keep.contains(&id));
            (map, copy)
        });
        match r {
            Ok((map, c)) => {
                let mut m: Vec<(u32, u32)> = map.into_iter().collect();
                m.sort();
                o["retain"] = json!({
                    "res":"ok",
                    "map": m.iter().map(|(a,b)| json!([a,b])).collect::<Vec<_>>(),
                    "reg": reg::to_a1(&c),
                    "gen": observe_gen(&c, &st),
                    "paths": observe_paths(&c, &st),
                });
            }
            Err(p) => {
                o["retain"] = json!({"res":"panic","msg":p,"map":[],"reg":[],"gen":{},"paths":[]});
            }
        }
    }
    o
}

/// `vh once`: one generation in this (fresh) process; the run arrives on stdin.
pub fn once_main() {
    let mut inp = String::new();
    use std::io::Read;
    std::io::stdin().read_to_string(&mut inp).expect("stdin");
    let run: Value = serde_json::from_str(&inp).expect("run json");
    let types = reg::from_a1(&run["reg"]).expect("registry");
    let st = settings::build(&run["settings"]).expect("settings");
    let g = observe_gen(&types, &st);
    println!("{}", serde_json::to_string(&json!({"res": g["res"], "fp": g["fp"], "msg": g["msg"]})).unwrap());
}

pub fn once_in_fresh_process(run: &Value) -> Value {
    use std::io::Write;
    use std::process::{Command, Stdio};
    let exe = std::env::current_exe().expect("exe");
    let child = Command::new(exe).arg("once").stdin(Stdio::piped()).stdout(Stdio::piped()).stderr(Stdio::null()).spawn();
    let Ok(mut child) = child else { return json!({"res":"spawn-failed","fp":"","msg":""}) };
    {
        let mut mini = run.clone();
        mini["fresh"] = json!(0);
        mini["repeat"] = json!(0);
        let _ = child.stdin.take().unwrap().write_all(serde_json::to_string(&mini).unwrap().as_bytes());
    }
    match child.wait_with_output() {
        Ok(out) if out.status.success() => serde_json::from_slice::<Value>(&out.stdout).unwrap_or(json!({"res":"bad-output","fp":"","msg":""})),
        _ => json!({"res":"abort","fp":"","msg":""}),
    }
}

pub fn gen_case(case: &Value) -> Value {
    let runs: Vec<Value> = case["runs"]
        .as_array()
        .map(|a| a.iter().map(observe_run).collect())
        .unwrap_or_default();
    json!({"runs": runs})
}

#[allow(dead_code)]
fn _unused(t: proc_macro2::TokenStream) -> String {
    t.to_token_stream().to_string()
}
