//! Settings form A.2 -> TypeGeneratorSettings. Paths arrive as type trees (A.3) so that the
//! specification can reason about them; here they are only rendered and parsed by syn.

use scale_typegen::typegen::settings::substitutes::absolute_path;
use scale_typegen::typegen::settings::AllocCratePath;
use scale_typegen::TypeGeneratorSettings;
use serde_json::Value;

/// Render a type tree (A.3) as Rust source text.
pub fn render_ty(t: &Value) -> String {
    match t["k"].as_str().unwrap_or("") {
        "path" => {
            let mut s = String::new();
            if t["lead"].as_bool().unwrap_or(false) {
                s.push_str("::");
            }
            let segs: Vec<&str> = t["segs"]
                .as_array()
                .map(|a| a.iter().map(|x| x.as_str().unwrap_or("")).collect())
                .unwrap_or_default();
            s.push_str(&segs.join("::"));
            let args: Vec<String> = t["args"]
                .as_array()
                .map(|a| a.iter().map(render_ty).collect())
                .unwrap_or_default();
            if !args.is_empty() {
                s.push('<');
                s.push_str(&args.join(", "));
                s.push('>');
            }
            s
        }
        "qpath" => {
            let mut s = String::new();
            if t["lead"].as_bool().unwrap_or(false) {
                s.push_str("::");
            }
            let segs = t["segs"].as_array().cloned().unwrap_or_default();
            let segargs = t["segargs"].as_array().cloned().unwrap_or_default();
            let parts: Vec<String> = segs
                .iter()
                .enumerate()
                .map(|(i, seg)| {
                    let args: Vec<String> = segargs.get(i).and_then(|a| a.as_array()).map(|a| a.iter().map(render_ty).collect()).unwrap_or_default();
                    if args.is_empty() {
                        seg.as_str().unwrap_or("").to_string()
                    } else {
                        format!("{}<{}>", seg.as_str().unwrap_or(""), args.join(", "))
                    }
                })
                .collect();
            s.push_str(&parts.join("::"));
            s
        }
        "tup" => {
            let el: Vec<String> = t["elems"]
                .as_array()
                .map(|a| a.iter().map(render_ty).collect())
                .unwrap_or_default();
            if el.len() == 1 {
                format!("({},)", el[0])
            } else {
                format!("({})", el.join(", "))
            }
        }
        "arr" => format!("[{}; {}]", render_ty(&t["of"]), t["len"]),
        "other" => t["text"].as_str().unwrap_or("").to_string(),
        _ => String::new(),
    }
}

fn opt_path(v: &Value) -> Result<Option<syn::Path>, String> {
    if v.is_null() || v.as_str() == Some("") {
        return Ok(None);
    }
    let s = if v.is_string() {
        v.as_str().unwrap().to_string()
    } else {
        render_ty(v)
    };
    if s.is_empty() {
        return Ok(None);
    }
    syn::parse_str::<syn::Path>(&s)
        .map(Some)
        .map_err(|e| format!("bad path {s}: {e}"))
}

pub fn parse_path(v: &Value) -> Result<syn::Path, String> {
    opt_path(v)?.ok_or_else(|| "empty path".to_string())
}

pub fn parse_attr(s: &str) -> Result<syn::Attribute, String> {
    use syn::parse::Parser;
    let attrs = syn::Attribute::parse_outer
        .parse_str(s)
        .map_err(|e| format!("bad attribute {s}: {e}"))?;
    attrs.into_iter().next().ok_or_else(|| "no attribute".to_string())
}

fn list(v: &Value) -> Vec<Value> {
    v.as_array().cloned().unwrap_or_default()
}

/// Build settings, registering derives / attributes / substitutes in the order given.
pub fn build(s: &Value) -> Result<TypeGeneratorSettings, String> {
    let mut st = TypeGeneratorSettings::new();
    if let Some(root) = s["root"].as_str() {
        if !root.is_empty() {
            st = st.type_mod_name(root);
        }
    }
    // alloc: a path tree; `alloc_std` selects AllocCratePath::Std (the tree is then ::std)
    if !s["alloc_std"].as_bool().unwrap_or(true) {
        if let Some(p) = opt_path(&s["alloc"])? {
            st.alloc_crate_path = AllocCratePath::Custom(p);
        }
    }
    st.should_gen_docs = s["docs"].as_bool().unwrap_or(true);
    st.insert_codec_attributes = s["codec"].as_bool().unwrap_or(false);
    if s["has_compact"].as_bool().unwrap_or(false) {
        st.compact_type_path = opt_path(&s["compact"])?;
    }
    if s["has_bits"].as_bool().unwrap_or(false) {
        st.decoded_bits_type_path = opt_path(&s["bits"])?;
    }
    if s["has_compact_as"].as_bool().unwrap_or(false) {
        st.compact_as_type_path = opt_path(&s["compact_as"])?;
    }
    // registration calls in order: {"op":"all_d"|"all_a"|"for_d"|"for_a","path","items","recursive"}
    for call in list(&s["derive_calls"]) {
        let op = call["op"].as_str().unwrap_or("");
        match op {
            "all_d" => {
                let items = list(&call["items"])
                    .iter()
                    .map(parse_path)
                    .collect::<Result<Vec<_>, _>>()?;
                st.derives.add_derives_for_all(items);
            }
            "all_a" => {
                let items = list(&call["items"])
                    .iter()
                    .map(|a| parse_attr(a.as_str().unwrap_or("")))
                    .collect::<Result<Vec<_>, _>>()?;
                st.derives.add_attributes_for_all(items);
            }
            "for_d" => {
                let p = parse_path(&call["path"])?;
                let tp = syn::TypePath { qself: None, path: p };
                let items = list(&call["items"])
                    .iter()
                    .map(parse_path)
                    .collect::<Result<Vec<_>, _>>()?;
                st.derives
                    .add_derives_for(tp, items, call["recursive"].as_bool().unwrap_or(false));
            }
            "for_a" => {
                let p = parse_path(&call["path"])?;
                let tp = syn::TypePath { qself: None, path: p };
                let items = list(&call["items"])
                    .iter()
                    .map(|a| parse_attr(a.as_str().unwrap_or("")))
                    .collect::<Result<Vec<_>, _>>()?;
                st.derives
                    .add_attributes_for(tp, items, call["recursive"].as_bool().unwrap_or(false));
            }
            _ => return Err(format!("unknown derive call {op}")),
        }
    }
    for sub in list(&s["subs"]) {
        let src = parse_path(&sub["src"])?;
        let dst = parse_path(&sub["dst"])?;
        let dst = absolute_path(dst).map_err(|e| format!("substitute target: {e}"))?;
        st.substitutes
            .insert(src, dst)
            .map_err(|e| format!("substitute insert: {e}"))?;
    }
    Ok(st)
}
