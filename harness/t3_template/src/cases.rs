pub fn run_all() {}
