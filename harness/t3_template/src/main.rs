//! Scratch crate of the compile-and-round-trip tier (T3).  `cases.rs` is written by the harness: the modules the real
//! generator emitted, wrapped in `mod case_<i>`, plus one `run()` per case that feeds byte strings to the generated types.
#![allow(dead_code, unused_imports, non_camel_case_types, clippy::all)]
use parity_scale_codec::{Decode, Encode};

/// decode -> all input consumed -> re-encode = same bytes
pub fn check<T: Encode + Decode>(case: usize, id: u32, k: usize, bytes: &[u8]) {
    let mut cur = bytes;
    let r = T::decode(&mut cur);
    match r {
        Ok(v) => {
            let rest = cur.len();
            let again = v.encode();
            println!("{{\"case\":{case},\"id\":{id},\"k\":{k},\"decode\":true,\"rest\":{rest},\"same\":{}}}", again == bytes);
        }
        Err(_) => println!("{{\"case\":{case},\"id\":{id},\"k\":{k},\"decode\":false,\"rest\":-1,\"same\":false}}"),
    }
}

/// stand-in for subxt's DecodedBits: bit length (compact) followed by whole store words
pub trait Store { const BYTES: usize; }
impl Store for u8 { const BYTES: usize = 1; }
impl Store for u16 { const BYTES: usize = 2; }
impl Store for u32 { const BYTES: usize = 4; }
impl Store for u64 { const BYTES: usize = 8; }
pub struct DecodedBits<S, O> { bits: u32, words: Vec<u8>, _m: core::marker::PhantomData<(S, O)> }
impl<S: Store, O> Decode for DecodedBits<S, O> {
    fn decode<I: parity_scale_codec::Input>(input: &mut I) -> Result<Self, parity_scale_codec::Error> {
        let bits = <parity_scale_codec::Compact<u32>>::decode(input)?.0;
        let per = 8 * S::BYTES as u32;
        let n = ((bits + per - 1) / per) as usize * S::BYTES;
        let mut words = vec![0u8; n];
        input.read(&mut words)?;
        Ok(DecodedBits { bits, words, _m: core::marker::PhantomData })
    }
}
impl<S: Store, O> Encode for DecodedBits<S, O> {
    fn encode_to<W: parity_scale_codec::Output + ?Sized>(&self, dest: &mut W) {
        parity_scale_codec::Compact(self.bits).encode_to(dest);
        dest.write(&self.words);
    }
}

include!("cases.rs");

fn main() {
    run_all();
}
