#!/bin/bash
# usage: seed_confirm.sh <worktree> <seed-id> <demo-crate> <demo-test-name>
# Confirms a seeded change: with the patch the existing unit tests pass and the demo fails; without it the demo passes.
set -u
WT=$1; ID=$2; CRATE=$3; DEMO=$4
OUT=/verif/seeded/$ID
mkdir -p $OUT
cd $WT || exit 2
cp patch.diff $OUT/patch.diff
cp meta.json $OUT/meta_agent.json 2>/dev/null
DEMOFILE=$(find . -name "$DEMO.rs" -not -path "./target/*" | head -1)
cp $DEMOFILE $OUT/ 
git stash list >/dev/null
# make sure patch is applied exactly once
git checkout -q -- typegen/src description/src 2>/dev/null
git apply patch.diff || { echo "patch does not apply"; exit 2; }
export CARGO_TARGET_DIR=$WT/target
cargo test --workspace --offline --lib > $OUT/with_suite.log 2>&1; S1=$?
cargo test --offline -p $CRATE --test $DEMO > $OUT/with_demo.log 2>&1; D1=$?
git apply -R patch.diff
cargo test --offline -p $CRATE --test $DEMO > $OUT/without_demo.log 2>&1; D0=$?
git apply patch.diff
echo "$ID: suite_with_patch=$S1 (want 0) demo_with_patch=$D1 (want !=0) demo_without_patch=$D0 (want 0)"
grep -h "test result" $OUT/with_suite.log | head -3
