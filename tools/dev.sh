#!/bin/bash
# development aid: run a check against a clean scratch clone of /repo (see driver/verif.py VERIF_DEV_*)
rsync -a --exclude target --exclude Cargo.toml /verif/harness/ /tmp/devharness/
VERIF_DEV_SPEC=${VERIF_DEV_SPEC:-/verif/spec} VERIF_DEV_HARNESS=/tmp/devharness VERIF_DEV_WORK=/tmp/devwork VERIF_DEV_REPO=/tmp/devrepo python3 /verif/driver/verif.py "$@"
