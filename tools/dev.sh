#!/bin/bash
# development aid (never used by the registered commands): run a check against a clean scratch clone of /repo, optionally with a
# scratch copy of the specifications (VERIF_DEV_SPEC), so that development can go on while a seeded change is applied to /repo itself
# (see driver/verif.py VERIF_DEV_*).  Everything it creates lives under /tmp; remove /tmp/dev* when done.
[ -d /tmp/devrepo ] || git clone -q /repo /tmp/devrepo
mkdir -p /tmp/devharness
rsync -a --exclude target --exclude Cargo.toml /verif/harness/ /tmp/devharness/
[ -f /tmp/devharness/Cargo.toml ] || sed 's#"/repo/#"/tmp/devrepo/#g; s#\.\./\.\./repo/#/tmp/devrepo/#g' /verif/harness/Cargo.toml > /tmp/devharness/Cargo.toml
VERIF_DEV_SPEC=${VERIF_DEV_SPEC:-/verif/spec} VERIF_DEV_HARNESS=/tmp/devharness VERIF_DEV_WORK=/tmp/devwork VERIF_DEV_REPO=/tmp/devrepo python3 /verif/driver/verif.py "$@"
