#!/bin/bash
# usage: seed_run.sh <seed-id> <prop> [<prop>...]  - applies the seeded change to /repo, runs the checks, undoes it.
ID=$1; shift
cd /repo && git status --short | grep -q . && { echo "/repo not clean"; exit 2; }
git -C /repo apply /verif/seeded/$ID/patch.diff || exit 2
for P in "$@"; do
  python3 /verif/driver/verif.py check $P --tier quick > /verif/seeded/$ID/check_$P.log 2>&1
  RC=$?
  echo "$ID $P exit=$RC violations=$(grep -c '^VIOLATION' /verif/seeded/$ID/check_$P.log) drift=$(grep -c '^DRIFT' /verif/seeded/$ID/check_$P.log)"
done
git -C /repo checkout -- .
cd /verif/harness && cargo build --release --offline >/dev/null 2>&1
