#!/usr/bin/env python3
"""Writes seeded/<id>/meta.json from the agent's description, my own confirmation logs and the check logs."""
import json, os, re, glob
ROOT = os.path.dirname(os.path.dirname(os.path.abspath(__file__)))
for d in sorted(glob.glob(os.path.join(ROOT, "seeded", "*"))):
    sid = os.path.basename(d)
    agent = {}
    if os.path.exists(os.path.join(d, "meta_agent.json")):
        try:
            agent = json.load(open(os.path.join(d, "meta_agent.json")))
        except Exception:
            agent = {}
    def tail(f):
        p = os.path.join(d, f)
        if not os.path.exists(p):
            return None
        t = open(p).read()
        return [l for l in t.splitlines() if "test result" in l][-3:]
    checks = {}
    for f in sorted(glob.glob(os.path.join(d, "check_*.log"))):
        prop = os.path.basename(f)[6:-4]
        t = open(f).read()
        n = len(re.findall(r"^VIOLATION", t, re.M))
        checks[prop] = {"violations_reported": n, "detected": n > 0, "tool_error": "TOOL ERROR" in t,
                        "first": (re.findall(r"^\s+(C\d\d predicates failed.*)$", t, re.M) or [""])[0][:200]}
    meta = {
        "seed": sid,
        "property": agent.get("property", sid[:3].upper()),
        "summary": agent.get("summary", ""),
        "needs": agent.get("needs", ""),
        "demo": agent.get("demo", ""),
        "origin": "written by an independent sub-agent that saw only the property text and a scratch worktree of /repo",
        "confirmed_by_me": {
            "how": "tools/seed_confirm.sh in the agent's scratch worktree: existing unit tests with the patch, demo with the patch, demo without the patch",
            "existing_suite_with_patch": tail("with_suite.log"),
            "demo_with_patch": tail("with_demo.log"),
            "demo_without_patch": tail("without_demo.log"),
        },
        "checks_run": {"how": "tools/seed_run.sh: git -C /repo apply patch.diff; python3 driver/verif.py check <P> --tier quick; git -C /repo checkout -- .", "results": checks},
    }
    json.dump(meta, open(os.path.join(d, "meta.json"), "w"), indent=1)
    print(sid, {k: v["detected"] for k, v in checks.items()})
